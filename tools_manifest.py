#!/venv/bin/python
"""Regenerate MANIFEST.json from simkafka/props.py and manifest_notes.json (kept valid at all times)."""
import json, os, sys
sys.path.insert(0, os.path.dirname(os.path.abspath(__file__)))
from simkafka.props import CHECKS
ROOT = os.path.dirname(os.path.abspath(__file__))
notes = json.load(open(os.path.join(ROOT, "manifest_notes.json")))
props = [json.loads(l) for l in open(os.path.join(ROOT, "properties.jsonl"))]
checks = []
na = []
for p in props:
    pid = p["id"]
    n = notes.get(pid, {})
    if pid in CHECKS and not n.get("not_applicable"):
        checks.append({
            "property_id": pid,
            "quick_cmd": "bin/check %s quick" % pid,
            "thorough_cmd": "bin/check %s thorough" % pid,
            "evidence_file": "/verif/evidence/%s.json" % pid,
            "replay_cmd_template": "bin/check %s --replay {path}" % pid,
            "engine": "simkafka",
            "level_claimed": {"category": "exploration", "text": n["text"], "design_ref": n.get("design_ref", "DESIGN.md 5")},
            "level_note": n["level_note"],
            "technique": n.get("technique", "deterministic simulation with fault injection (seeded schedule and fault search)"),
        })
    else:
        na.append({"property_id": pid, "reason": n.get("not_applicable") or "check not built yet in this round (see DESIGN.md 5 for the planned oracle)"})
m = {
    "version": 1,
    "setup_cmd": "bin/setup",
    "hooks": {
        "guard": "AFKAK_VERIF",
        "enable": "no hooks are needed: every seam is a constructor argument or module attribute (DESIGN.md 1); checks import afkak from /repo's working tree (AFKAK_SRC overrides)",
        "baseline_off_cmd": "cd /repo && /venv/bin/python -m pytest -ra -q -p no:cacheprovider --timeout=900 --continue-on-collection-errors",
        "source_commits": notes.get("_hook_commits", []),
        "add_only": True,
    },
    "engines": [{
        "name": "simkafka", "path": "/verif/simkafka", "serves_properties": [c["property_id"] for c in checks],
        "kind_free_text": "single-process discrete-event simulator: virtual-time reactor, in-process network with seeded segmentation and faults, simulated Kafka cluster with an independent wire codec, seeded plan generator, ddmin shrinker, replay files",
    }],
    "checks": checks,
    "not_applicable": na,
    "notes": notes.get("_notes", ""),
}
json.dump(m, open(os.path.join(ROOT, "MANIFEST.json"), "w"), indent=1)
print("checks:", [c["property_id"] for c in checks], "not_applicable:", [x["property_id"] for x in na])
