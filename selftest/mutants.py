#!/venv/bin/python
"""Sensitivity self-test: apply each catalogued source mutation to a scratch copy of afkak (never to /repo),
run the quick check of the property it is tagged with, and demand exit 1.

usage: selftest/mutants.py [name-substring ...] [--scale=F] [--seeded]
Patches live in selftest/mutants/*.patch (first line '# property: Cxx[,Cyy]'), and --seeded also runs
/verif/seeded/*/patch.diff (property from meta.json).
"""
import json
import glob
import os
import shutil
import subprocess
import sys
import tempfile

ROOT = os.path.dirname(os.path.dirname(os.path.abspath(__file__)))


def props_of(path):
    if path.endswith("patch.diff"):
        with open(os.path.join(os.path.dirname(path), "meta.json")) as f:
            m = json.load(f)
        p = m["property"]
        return p if isinstance(p, list) else [p]
    with open(path) as f:
        first = f.readline()
    if first.startswith("# property:"):
        return [x.strip() for x in first.split(":", 1)[1].split(",")]
    raise SystemExit("no property header in %s" % path)


def main():
    args = [a for a in sys.argv[1:] if not a.startswith("--")]
    scale = "1"
    for a in sys.argv[1:]:
        if a.startswith("--scale="):
            scale = a.split("=", 1)[1]
    patches = sorted(glob.glob(os.path.join(ROOT, "selftest", "mutants", "*.patch")))
    if "--seeded" in sys.argv:
        patches += sorted(glob.glob(os.path.join(ROOT, "seeded", "*", "patch.diff")))
    if args:
        patches = [p for p in patches if any(a in p for a in args)]
    results = []
    for patch in patches:
        scratch = tempfile.mkdtemp(prefix="afkak-mut-")
        try:
            shutil.copytree("/repo/afkak", os.path.join(scratch, "afkak"), ignore=shutil.ignore_patterns("__pycache__"))
            r = subprocess.run(["patch", "-p1", "-s", "-d", scratch, "-i", patch], capture_output=True, text=True)
            if r.returncode != 0:
                results.append((patch, "PATCH-FAILED", r.stdout + r.stderr))
                continue
            for prop in props_of(patch):
                env = dict(os.environ)
                env["AFKAK_SRC"] = scratch
                env["VERIF_NO_EVIDENCE"] = "1"
                env["VERIF_NO_SHRINK"] = "1"
                p = subprocess.run([os.path.join(ROOT, "bin", "check"), prop, "quick", "--scale=" + scale],
                                   capture_output=True, text=True, env=env, timeout=1800)
                sigs = [l for l in p.stdout.splitlines() if l.startswith("violation:")]
                verdict = "CAUGHT" if p.returncode == 1 else ("MISSED" if p.returncode == 0 else "HARNESS(rc=%d)" % p.returncode)
                results.append((os.path.relpath(patch, ROOT), prop + " " + verdict, "; ".join(s[:160] for s in sigs[:2]) or p.stdout[-300:]))
                print("%-55s %-16s %s" % results[-1])
                sys.stdout.flush()
        finally:
            shutil.rmtree(scratch, ignore_errors=True)
    missed = [r for r in results if "CAUGHT" not in r[1]]
    print("%d mutants, %d not caught" % (len(results), len(missed)))
    return 1 if missed else 0


if __name__ == "__main__":
    sys.exit(main())
