#!/venv/bin/python
"""Determinism self-test: one seed must be one exactly repeatable execution.

For every family: N plans, each run (a) twice in this process, (b) in fresh interpreters spread over W worker
processes at two different worker counts (so runs share a process with different neighbours in different order),
and the SHA-256 digests of the event logs must all agree.  PYTHONHASHSEED is pinned to 0 everywhere (afkak iterates
sets of topic names onto the wire); a run under another hash seed is made too and *reported* (not required to match).

usage: selftest/determinism.py [N per family, default 40]
"""
import concurrent.futures as cf
import json
import multiprocessing
import os
import subprocess
import sys

ROOT = os.path.dirname(os.path.dirname(os.path.abspath(__file__)))
sys.path.insert(0, ROOT)

FAMS = ["bc", "pr", "co", "cl", "gr"]


def digests(job):
    fam, seeds = job
    from simkafka import runner
    mod = runner.family(fam)
    out = []
    for s in seeds:
        plan = mod.plans_for(s, "quick")[0]
        out.append((s, mod.run_plan(plan).digest))
    return fam, out


def fresh(fam, seeds, hashseed="0"):
    code = ("import sys, json; sys.path.insert(0, %r); sys.argv=['x'];\n"
            "from selftest.determinism import digests\n"
            "print(json.dumps(digests((%r, %r))[1]))\n" % (ROOT, fam, seeds))
    env = dict(os.environ)
    env["PYTHONHASHSEED"] = hashseed
    p = subprocess.run([sys.executable, "-c", code], capture_output=True, text=True, env=env, timeout=3000)
    return [tuple(x) for x in json.loads(p.stdout.strip().splitlines()[-1])]


def main():
    if os.environ.get("PYTHONHASHSEED") != "0":
        env = dict(os.environ)
        env["PYTHONHASHSEED"] = "0"
        os.execve(sys.executable, [sys.executable] + sys.argv, env)
    n = int(sys.argv[1]) if len(sys.argv) > 1 else 40
    bad = 0
    for fam in FAMS:
        k = n if fam not in ("gr",) else max(6, n // 5)
        seeds = [1000003 * 7 + i * 13 for i in range(k)]
        ref = dict(digests((fam, seeds))[1])
        again = dict(digests((fam, list(reversed(seeds))))[1])
        diffs = [s for s in seeds if ref[s] != again[s]]
        for workers in (3, 16):
            ctx = multiprocessing.get_context("fork")
            chunks = [seeds[i::workers] for i in range(workers) if seeds[i::workers]]
            with cf.ProcessPoolExecutor(max_workers=workers, mp_context=ctx) as ex:
                for _fam, out in ex.map(digests, [(fam, c) for c in chunks]):
                    diffs += [s for s, d in out if ref[s] != d]
        fr = dict(fresh(fam, seeds[: max(4, k // 4)]))
        diffs += [s for s, d in fr.items() if ref[s] != d]
        other = dict(fresh(fam, seeds[: max(4, k // 4)], hashseed="12345"))
        hs = [s for s, d in other.items() if ref[s] != d]
        print("%s: %d plans, %d digest mismatches (in-process twice, reversed order, 3 and 16 workers, fresh interpreter); "
              "under PYTHONHASHSEED=12345 %d of %d differ (informational)" % (fam, k, len(set(diffs)), len(hs), len(other)))
        if diffs:
            bad += 1
            print("   mismatching seeds: %r" % sorted(set(diffs))[:10])
    return 1 if bad else 0


if __name__ == "__main__":
    sys.exit(main())
