#!/bin/sh
# confirm a round-5 change written by a sub-agent (worktree /tmp/s5/<ID>, deliverables /tmp/s5out/<ID>; the demo takes the
# checkout to test as its argument) and keep it as /verif/seeded/<ID>b/
# usage: selftest/confirm_seeded5.sh <ID>
ID=$1; NAME=${2:-${ID}e}
WT=/tmp/s5/$ID; OUT=/tmp/s5out/$ID
[ -f $OUT/patch.diff ] || { echo "no patch"; exit 2; }
git -C $WT diff > /tmp/confirm_$ID.diff
cmp -s /tmp/confirm_$ID.diff $OUT/patch.diff || { echo "note: patch.diff differs from the worktree diff; using the worktree diff"; cp /tmp/confirm_$ID.diff $OUT/patch.diff; }
echo "== suite on the changed tree"
S=$(cd $WT && /venv/bin/python -m pytest -q -p no:cacheprovider --timeout=900 2>&1 | tail -1); echo "$S"
echo "== demo on the original tree"
(cd /tmp && PYTHONDONTWRITEBYTECODE=1 timeout 300 /venv/bin/python $OUT/demo.py /repo >/tmp/demo_orig_$ID.log 2>&1); A=$?; echo "exit $A"; tail -1 /tmp/demo_orig_$ID.log
echo "== demo on the changed tree"
(cd /tmp && PYTHONDONTWRITEBYTECODE=1 timeout 300 /venv/bin/python $OUT/demo.py $WT >/tmp/demo_chg_$ID.log 2>&1); B=$?; echo "exit $B"; tail -2 /tmp/demo_chg_$ID.log
case "$S" in *"1 failed, 310 passed"*) OKS=1;; *) OKS=0;; esac
if [ $OKS = 1 ] && [ $A = 0 ] && [ $B = 1 ]; then
  mkdir -p /verif/seeded/$NAME && cp $OUT/patch.diff $OUT/demo.py /verif/seeded/$NAME/ &&
  /venv/bin/python - $OUT/meta.json /verif/seeded/$NAME/meta.json "$S" $A $B <<'PY'
import json, sys
m = json.load(open(sys.argv[1]))
m["round"] = 5
m["confirmed"] = {"suite_on_changed_tree": sys.argv[3], "demo_exit_on_original": int(sys.argv[4]), "demo_exit_on_changed": int(sys.argv[5]),
                  "how": "selftest/confirm_seeded5.sh: suite in the agent's scratch worktree, demo.py /repo and demo.py <worktree>"}
json.dump(m, open(sys.argv[2], "w"), indent=1)
PY
  echo "CONFIRMED -> /verif/seeded/$NAME"
else
  echo "NOT CONFIRMED (suite ok=$OKS demo orig=$A changed=$B)"; exit 1
fi
