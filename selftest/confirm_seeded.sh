#!/bin/sh
# confirm a change written by a sub-agent (in /tmp/seed_wt/<ID>, deliverables in /tmp/seed_out/<ID>) and keep it as /verif/seeded/<name>/
# usage: selftest/confirm_seeded.sh <ID> [name]
ID=$1; NAME=${2:-$1}
WT=/tmp/seed_wt/$ID; OUT=/tmp/seed_out/$ID
[ -f $OUT/patch.diff ] || { echo "no patch"; exit 2; }
echo "== suite on the changed tree"
S=$(cd $WT && PYTHONPATH=$WT /venv/bin/python -m pytest -q -p no:cacheprovider --timeout=900 2>&1 | tail -1); echo "$S"
echo "== demo on the original tree"
PYTHONPATH=/repo timeout 300 /venv/bin/python $OUT/demo.py >/tmp/demo_orig.log 2>&1; A=$?; echo "exit $A"
echo "== demo on the changed tree"
PYTHONPATH=$WT timeout 300 /venv/bin/python $OUT/demo.py >/tmp/demo_chg.log 2>&1; B=$?; echo "exit $B"; tail -3 /tmp/demo_chg.log
case "$S" in *"1 failed, 310 passed"*) OKS=1;; *) OKS=0;; esac
if [ $OKS = 1 ] && [ $A = 0 ] && [ $B != 0 ]; then
  mkdir -p /verif/seeded/$NAME && cp $OUT/patch.diff $OUT/demo.py /verif/seeded/$NAME/ &&
  /venv/bin/python - $OUT/meta.json /verif/seeded/$NAME/meta.json "$S" $A $B <<'PY'
import json, sys
m = json.load(open(sys.argv[1]))
m["confirmed"] = {"suite_on_changed_tree": sys.argv[3], "demo_exit_on_original": int(sys.argv[4]), "demo_exit_on_changed": int(sys.argv[5]),
                  "how": "selftest/confirm_seeded.sh: suite in the agent's scratch worktree, demo with PYTHONPATH=/repo and PYTHONPATH=<worktree>"}
json.dump(m, open(sys.argv[2], "w"), indent=1)
PY
  echo "CONFIRMED -> /verif/seeded/$NAME"
else
  echo "NOT CONFIRMED (suite ok=$OKS demo orig=$A changed=$B)"; exit 1
fi
