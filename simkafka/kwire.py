"""Independent, schema-driven implementation of the slice of the Kafka wire protocol afkak speaks.

Written from the protocol guide (https://kafka.apache.org/protocol), sharing no code with afkak.kafkacodec.
The reader is strict: bodies must be consumed exactly, counts and non-nullable lengths are non-negative,
CRCs are verified, compression attributes must match what the value really is.
"""
import gzip
import io
import struct
import zlib


class WireError(Exception):
    pass


# ---- primitive layer -------------------------------------------------------------------------

class Cursor(object):
    def __init__(self, data, pos=0):
        self.data = bytes(data)
        self.pos = pos

    def take(self, n):
        if n < 0 or self.pos + n > len(self.data):
            raise WireError("need %d bytes at %d, have %d" % (n, self.pos, len(self.data) - self.pos))
        out = self.data[self.pos:self.pos + n]
        self.pos += n
        return out

    def left(self):
        return len(self.data) - self.pos


_FMT = {"int8": ">b", "int16": ">h", "int32": ">i", "int64": ">q", "uint32": ">I"}
_RANGE = {"int8": 8, "int16": 16, "int32": 32, "int64": 64}


def _read(cur, t):
    if isinstance(t, str):
        if t in _FMT:
            f = _FMT[t]
            return struct.unpack(f, cur.take(struct.calcsize(f)))[0]
        if t in ("string", "nstring"):
            (n,) = struct.unpack(">h", cur.take(2))
            if n == -1:
                if t == "string":
                    raise WireError("null in non-nullable string")
                return None
            if n < 0:
                raise WireError("negative string length %d" % n)
            raw = cur.take(n)
            try:
                return raw.decode("utf-8")
            except UnicodeDecodeError:
                raise WireError("string is not UTF-8: %r" % raw)
        if t in ("bytes", "nbytes"):
            (n,) = struct.unpack(">i", cur.take(4))
            if n == -1:
                if t == "bytes":
                    raise WireError("null in non-nullable bytes")
                return None
            if n < 0:
                raise WireError("negative bytes length %d" % n)
            return cur.take(n)
        raise WireError("unknown type %r" % (t,))
    if isinstance(t, list):  # array of t[0]
        (n,) = struct.unpack(">i", cur.take(4))
        if n < 0:
            raise WireError("negative array count %d" % n)
        if n > cur.left():
            raise WireError("array count %d exceeds remaining bytes" % n)
        return [_read(cur, t[0]) for _ in range(n)]
    if isinstance(t, tuple):  # struct: tuple of (name, type)
        return {name: _read(cur, ft) for name, ft in t}
    raise WireError("bad schema %r" % (t,))


def _write(out, t, v):
    if isinstance(t, str):
        if t in _FMT:
            out.append(struct.pack(_FMT[t], v))
            return
        if t in ("string", "nstring"):
            if v is None:
                if t == "string":
                    raise WireError("null for non-nullable string")
                out.append(struct.pack(">h", -1))
                return
            raw = v.encode("utf-8") if isinstance(v, str) else bytes(v)
            out.append(struct.pack(">h", len(raw)))
            out.append(raw)
            return
        if t in ("bytes", "nbytes"):
            if v is None:
                if t == "bytes":
                    raise WireError("null for non-nullable bytes")
                out.append(struct.pack(">i", -1))
                return
            out.append(struct.pack(">i", len(v)))
            out.append(bytes(v))
            return
        raise WireError("unknown type %r" % (t,))
    if isinstance(t, list):
        out.append(struct.pack(">i", len(v)))
        for x in v:
            _write(out, t[0], x)
        return
    if isinstance(t, tuple):
        for name, ft in t:
            _write(out, ft, v[name])
        return
    raise WireError("bad schema %r" % (t,))


# ---- API schemas -----------------------------------------------------------------------------

PRODUCE, FETCH, LIST_OFFSETS, METADATA = 0, 1, 2, 3
OFFSET_COMMIT, OFFSET_FETCH, FIND_COORDINATOR = 8, 9, 10
JOIN_GROUP, HEARTBEAT, LEAVE_GROUP, SYNC_GROUP = 11, 12, 13, 14
API_VERSIONS = 18

API_NAMES = {0: "Produce", 1: "Fetch", 2: "ListOffsets", 3: "Metadata", 8: "OffsetCommit", 9: "OffsetFetch",
             10: "FindCoordinator", 11: "JoinGroup", 12: "Heartbeat", 13: "LeaveGroup", 14: "SyncGroup",
             18: "ApiVersions"}

_produce_req = (("acks", "int16"), ("timeout", "int32"),
                ("topics", [(("name", "string"), ("partitions", [(("partition", "int32"), ("records", "bytes"))]))]))
_fetch_req = (("replica_id", "int32"), ("max_wait", "int32"), ("min_bytes", "int32"),
              ("topics", [(("name", "string"),
                           ("partitions", [(("partition", "int32"), ("offset", "int64"), ("max_bytes", "int32"))]))]))

REQUEST = {
    (PRODUCE, 0): _produce_req, (PRODUCE, 1): _produce_req, (PRODUCE, 2): _produce_req,
    (FETCH, 0): _fetch_req, (FETCH, 1): _fetch_req, (FETCH, 2): _fetch_req,
    (LIST_OFFSETS, 0): (("replica_id", "int32"),
                        ("topics", [(("name", "string"),
                                     ("partitions", [(("partition", "int32"), ("time", "int64"), ("max_num", "int32"))]))])),
    (METADATA, 0): (("topics", ["string"]),),
    (OFFSET_COMMIT, 1): (("group", "string"), ("generation", "int32"), ("member", "string"),
                         ("topics", [(("name", "string"),
                                      ("partitions", [(("partition", "int32"), ("offset", "int64"),
                                                       ("timestamp", "int64"), ("metadata", "nstring"))]))])),
    (OFFSET_FETCH, 1): (("group", "string"), ("topics", [(("name", "string"), ("partitions", ["int32"]))])),
    (FIND_COORDINATOR, 0): (("group", "string"),),
    (JOIN_GROUP, 0): (("group", "string"), ("session_timeout", "int32"), ("member", "string"),
                      ("protocol_type", "string"), ("protocols", [(("name", "string"), ("metadata", "bytes"))])),
    (HEARTBEAT, 0): (("group", "string"), ("generation", "int32"), ("member", "string")),
    (LEAVE_GROUP, 0): (("group", "string"), ("member", "string")),
    (SYNC_GROUP, 0): (("group", "string"), ("generation", "int32"), ("member", "string"),
                      ("assignments", [(("member", "string"), ("assignment", "bytes"))])),
    (API_VERSIONS, 0): (),
}

_prod_part0 = (("partition", "int32"), ("error", "int16"), ("offset", "int64"))
_prod_part2 = (("partition", "int32"), ("error", "int16"), ("offset", "int64"), ("log_append_time", "int64"))
_fetch_topics = [(("name", "string"),
                  ("partitions", [(("partition", "int32"), ("error", "int16"), ("hwm", "int64"), ("records", "bytes"))]))]

RESPONSE = {
    (PRODUCE, 0): (("topics", [(("name", "string"), ("partitions", [_prod_part0]))]),),
    (PRODUCE, 1): (("topics", [(("name", "string"), ("partitions", [_prod_part0]))]), ("throttle", "int32")),
    (PRODUCE, 2): (("topics", [(("name", "string"), ("partitions", [_prod_part2]))]), ("throttle", "int32")),
    (FETCH, 0): (("topics", _fetch_topics),),
    (FETCH, 1): (("throttle", "int32"), ("topics", _fetch_topics)),
    (FETCH, 2): (("throttle", "int32"), ("topics", _fetch_topics)),
    (LIST_OFFSETS, 0): (("topics", [(("name", "string"),
                                     ("partitions", [(("partition", "int32"), ("error", "int16"), ("offsets", ["int64"]))]))]),),
    (METADATA, 0): (("brokers", [(("node", "int32"), ("host", "string"), ("port", "int32"))]),
                    ("topics", [(("error", "int16"), ("name", "string"),
                                 ("partitions", [(("error", "int16"), ("id", "int32"), ("leader", "int32"),
                                                  ("replicas", ["int32"]), ("isr", ["int32"]))]))])),
    (OFFSET_COMMIT, 1): (("topics", [(("name", "string"), ("partitions", [(("partition", "int32"), ("error", "int16"))]))]),),
    (OFFSET_FETCH, 1): (("topics", [(("name", "string"),
                                     ("partitions", [(("partition", "int32"), ("offset", "int64"),
                                                      ("metadata", "nstring"), ("error", "int16"))]))]),),
    (FIND_COORDINATOR, 0): (("error", "int16"), ("node", "int32"), ("host", "string"), ("port", "int32")),
    (JOIN_GROUP, 0): (("error", "int16"), ("generation", "int32"), ("protocol", "string"), ("leader", "string"),
                      ("member", "string"), ("members", [(("id", "string"), ("metadata", "bytes"))])),
    (HEARTBEAT, 0): (("error", "int16"),),
    (LEAVE_GROUP, 0): (("error", "int16"),),
    (SYNC_GROUP, 0): (("error", "int16"), ("assignment", "bytes")),
    (API_VERSIONS, 0): (("error", "int16"), ("versions", [(("key", "int16"), ("min", "int16"), ("max", "int16"))])),
}

SUBSCRIPTION = (("version", "int16"), ("topics", ["string"]), ("user_data", "nbytes"))
ASSIGNMENT = (("version", "int16"), ("partitions", [(("topic", "string"), ("partitions", ["int32"]))]),
              ("user_data", "nbytes"))


def parse_request(frame):
    """frame: bytes of one request without the length prefix.  Returns (header dict, body dict)."""
    cur = Cursor(frame)
    hdr = _read(cur, (("key", "int16"), ("version", "int16"), ("correlation", "int32"), ("client_id", "nstring")))
    sch = REQUEST.get((hdr["key"], hdr["version"]))
    if sch is None:
        raise WireError("unsupported api key/version %d/%d" % (hdr["key"], hdr["version"]))
    body = _read(cur, sch)
    if cur.left():
        raise WireError("%s v%d: %d stray bytes after the body" % (API_NAMES.get(hdr["key"]), hdr["version"], cur.left()))
    return hdr, body


def peek_header(frame):
    cur = Cursor(frame)
    return _read(cur, (("key", "int16"), ("version", "int16"), ("correlation", "int32")))


def encode_response(key, version, correlation, body):
    out = [struct.pack(">i", correlation)]
    _write(out, RESPONSE[(key, version)], body)
    return b"".join(out)


def encode_request(key, version, correlation, client_id, body):
    out = []
    _write(out, (("key", "int16"), ("version", "int16"), ("correlation", "int32"), ("client_id", "nstring")),
           {"key": key, "version": version, "correlation": correlation, "client_id": client_id})
    _write(out, REQUEST[(key, version)], body)
    return b"".join(out)


def decode_struct(schema, data):
    cur = Cursor(data)
    v = _read(cur, schema)
    if cur.left():
        raise WireError("%d stray bytes" % cur.left())
    return v


def encode_struct(schema, v):
    out = []
    _write(out, schema, v)
    return b"".join(out)


# ---- message sets (formats 0 and 1) ----------------------------------------------------------

CODEC_MASK = 0x07
GZIP = 1


class Msg(object):
    """One stored (leaf) message with its absolute offset."""
    __slots__ = ("offset", "magic", "key", "value", "timestamp", "attrs")

    def __init__(self, offset, key, value, magic=0, timestamp=None, attrs=0):
        self.offset = offset
        self.magic = magic
        self.key = key
        self.value = value
        self.timestamp = timestamp
        self.attrs = attrs

    def tup(self):
        return (self.offset, self.key, self.value)

    def __repr__(self):
        return "Msg(%d,%r,%r,m%d)" % (self.offset, self.key, None if self.value is None else self.value[:16], self.magic)


def _gz(data):
    buf = io.BytesIO()
    with gzip.GzipFile(fileobj=buf, mode="wb", mtime=0) as f:
        f.write(data)
    return buf.getvalue()


def _gunz(data):
    try:
        return gzip.GzipFile(fileobj=io.BytesIO(data), mode="rb").read()
    except Exception as e:
        raise WireError("gzip payload does not decompress: %r" % (e,))


def encode_message(magic, attrs, key, value, timestamp=None):
    parts = [struct.pack(">bb", magic, attrs)]
    if magic == 1:
        parts.append(struct.pack(">q", -1 if timestamp is None else timestamp))
    elif magic != 0:
        raise WireError("magic %r" % (magic,))
    for field in (key, value):
        if field is None:
            parts.append(struct.pack(">i", -1))
        else:
            parts.append(struct.pack(">i", len(field)))
            parts.append(field)
    body = b"".join(parts)
    return struct.pack(">I", zlib.crc32(body) & 0xFFFFFFFF) + body


def encode_entry(offset, message_bytes):
    return struct.pack(">qi", offset, len(message_bytes)) + message_bytes


def encode_plain_set(msgs):
    """Uncompressed set of Msg objects with their absolute offsets."""
    return b"".join(encode_entry(m.offset, encode_message(m.magic, 0, m.key, m.value, m.timestamp)) for m in msgs)


def encode_wrapper(msgs, magic, codec=GZIP, wrapper_ts=None, inner=None, rel0=0, inner_attrs=0, members=1):
    """One compressed wrapper entry holding ``msgs`` (absolute offsets, ascending).

    Format 0: inner offsets are the absolute offsets.  Format 1: inner offsets are 0..n-1 relative to the
    first, the wrapper carries the absolute offset of the last inner message (KIP-31)."""
    if codec != GZIP:
        raise WireError("only gzip is available in this sandbox")
    if inner is None:
        chunks = []
        for i, m in enumerate(msgs):
            # format 1: relative to the *original* first message of the wrapper, which compaction may have removed (rel0 > 0)
            off = m.offset if magic == 0 else m.offset - msgs[0].offset + rel0
            chunks.append(encode_entry(off, encode_message(magic, inner_attrs, m.key, m.value, m.timestamp)))
        if members > 1 and len(chunks) > 1:
            # a gzip stream of several members (RFC 1952 2.2; what a producer that flushes its compressor per
            # chunk emits): readers concatenate the members
            k = max(1, len(chunks) // members)
            groups = [chunks[i:i + k] for i in range(0, len(chunks), k)]
            wrapper = encode_message(magic, codec, None, b"".join(_gz(b"".join(g)) for g in groups), wrapper_ts)
            return encode_entry(msgs[-1].offset, wrapper)
        inner = b"".join(chunks)
    wrapper = encode_message(magic, codec, None, _gz(inner), wrapper_ts)
    return encode_entry(msgs[-1].offset, wrapper)


def parse_message_set(data, strict_tail=True, depth=0, lenient_inner_offsets=False):
    """Parse a message set into a list of leaf tuples (offset, magic, attrs, key, value, timestamp, wrapper_info).

    strict_tail: a partial trailing entry is an error (request side); otherwise it is dropped (fetch side).
    Returns (entries, complete_bytes) where entries is a list of dicts:
       {"offset", "magic", "attrs", "key", "value", "timestamp", "inner": None | [entries]}"""
    cur = Cursor(data)
    out = []
    while cur.left() > 0:
        start = cur.pos
        if cur.left() < 12:
            if strict_tail:
                raise WireError("truncated message-set entry header")
            cur.pos = start
            break
        off, size = struct.unpack(">qi", cur.take(12))
        if size < 0:
            raise WireError("negative message size %d" % size)
        if cur.left() < size:
            if strict_tail:
                raise WireError("truncated message: need %d have %d" % (size, cur.left()))
            cur.pos = start
            break
        body = cur.take(size)
        out.append(_parse_message(off, body, depth, lenient_inner_offsets))
    return out, cur.pos


def _parse_message(off, body, depth, lenient):
    mc = Cursor(body)
    (crc,) = struct.unpack(">I", mc.take(4))
    if crc != (zlib.crc32(body[4:]) & 0xFFFFFFFF):
        raise WireError("CRC mismatch at offset %d" % off)
    magic, attrs = struct.unpack(">bb", mc.take(2))
    ts = None
    if magic == 1:
        (ts,) = struct.unpack(">q", mc.take(8))
    elif magic != 0:
        raise WireError("unsupported magic %d" % magic)
    key = _read(mc, "nbytes")
    value = _read(mc, "nbytes")
    if mc.left():
        raise WireError("%d stray bytes inside message at offset %d" % (mc.left(), off))
    codec = attrs & CODEC_MASK
    if attrs & ~0x0F:
        raise WireError("reserved attribute bits set: 0x%x" % attrs)
    ent = {"offset": off, "magic": magic, "attrs": attrs, "key": key, "value": value, "timestamp": ts, "inner": None}
    if codec == 0:
        return ent
    if codec != GZIP:
        raise WireError("codec %d not available here" % codec)
    if depth >= 2:
        raise WireError("wrapper nesting too deep")
    if value is None:
        raise WireError("compressed wrapper with null value")
    inner, used = parse_message_set(_gunz(value), True, depth + 1, lenient)
    if not inner:
        raise WireError("empty compressed wrapper")
    for e in inner:
        if e["magic"] != magic and not lenient:
            raise WireError("inner magic %d differs from wrapper magic %d" % (e["magic"], magic))
    ent["inner"] = inner
    return ent


def leaves(entries, absolute=True):
    """Flatten parsed entries to leaf messages with absolute offsets per the format's convention."""
    out = []
    for e in entries:
        if e["inner"] is None:
            out.append(e)
            continue
        inner = leaves(e["inner"])
        if e["magic"] == 1:
            last_rel = inner[-1]["offset"]
            base = e["offset"] - last_rel
            inner = [dict(x, offset=base + x["offset"]) for x in inner]
        out.extend(inner)
    return out


def frame_entries(data):
    """Framing only (no CRC, no decoding): complete (offset, size) entries of a message set and bytes used."""
    out = []
    pos = 0
    n = len(data)
    while n - pos >= 12:
        off, size = struct.unpack(">qi", data[pos:pos + 12])
        if size < 0 or n - pos - 12 < size:
            break
        out.append((off, size))
        pos += 12 + size
    return out, pos
