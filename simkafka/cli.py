"""bin/check <ID> [quick|thorough] [--replay FILE] [--runs N]"""
import json
import os
import sys
import time

from . import runner
from .props import CHECKS, REAL_VS_STUB


def _evidence(prop, tier, seed, merged, wall, violations, known_hits, det_problems, det_n, fams, extra_assumptions=()):
    runs = merged["runs"]
    faults = merged["faults"]
    cov = {
        "evaluations": runs,
        "distinct_nontrivial": len(merged["nontrivial_orders"]),
        "rule": (
            "one evaluation = one simulated execution of a generated plan (workload + fault script + schedule seed); "
            "distinct = distinct SHA-256 digests of the order of (event kind, entity) pairs of the run; non-trivial = at "
            "least one fault fired and this property's oracle evaluated at least one non-vacuous obligation in that run"
        ),
        "samples": merged["samples"][:3],
        "distinct_interleavings": len(merged["orders"]),
        "runs_per_hour": int(runs / wall * 3600) if wall > 0 else 0,
        "seeds": runs,
        "simulated_seconds": round(merged["sim_time"], 3),
        "events_executed": merged["events"],
        "fault_kinds_fired": faults,
        "probes": merged["probes"],
        "abstract_states_reached": sorted(merged["states"])[:200],
        "n_abstract_states": len(merged["states"]),
        "oracle_obligations": merged["obligations"],
        "families": {f: n for f, n in fams},
        "per_family": merged["per_family"],
        "real_vs_stub": REAL_VS_STUB,
        "determinism_selfcheck": {"plans": det_n, "problems": det_problems},
        "harness_errors": merged["harness"][:5],
        "n_harness_errors": len(merged["harness"]),
        "violations_of_other_properties_seen": merged["others"],
        "known_findings_hit": known_hits,
        "skipped_jobs": merged.get("skipped_jobs", 0),
        "exhaustive": False,
    }
    ev = {
        "property_id": prop,
        "tier": tier,
        "seed": seed,
        "level": "exploration",
        "coverage": cov,
        "assumptions": [
            "the simulated cluster, network and clock stand in for Kafka, TCP and the Twisted reactor (DESIGN 2, 3)",
            "oracles compare against what the simulated cluster actually did, never against an ideal Kafka",
            "seeded search: a clean batch is evidence, not proof",
            "PYTHONHASHSEED=0 (afkak iterates sets of topic names onto the wire)",
        ] + list(extra_assumptions),
        "wall_s": round(wall, 2),
        "violations": violations,
    }
    evdir = runner.EVIDENCE
    if os.environ.get("VERIF_NO_EVIDENCE"):
        evdir = os.path.join(runner.OUT, "evidence-scratch")  # mutant self-tests must not touch /verif/evidence
    os.makedirs(evdir, exist_ok=True)
    path = os.path.join(evdir, "%s.json" % prop)
    tmp = path + ".tmp"
    with open(tmp, "w") as f:
        json.dump(ev, f, indent=1, sort_keys=True, default=str)
    os.replace(tmp, path)
    return path


def main(argv):
    if os.environ.get("PYTHONHASHSEED") != "0":
        env = dict(os.environ)
        env["PYTHONHASHSEED"] = "0"
        os.execve(sys.executable, [sys.executable, "-c", "import sys; sys.path.insert(0, %r); from simkafka.cli import main; sys.exit(main(sys.argv[1:]))" % runner.ROOT] + argv, env)
    args = [a for a in argv if not a.startswith("--")]
    prop = args[0]
    tier = os.environ.get("VERIF_TIER") or (args[1] if len(args) > 1 else "quick")
    if tier not in ("quick", "thorough"):
        tier = "quick"
    seed = int(os.environ.get("VERIF_SEED", "1"))
    if "--replay" in argv:
        path = argv[argv.index("--replay") + 1]
        doc, res, hit, same = runner.replay(path, prop)
        print("replay %s: signature %s reproduced=%s digest_equal=%s" % (path, doc["signature"], bool(hit), same))
        for v in res.violations:
            print("  %s %s: %s" % (v["prop"], v["sig"], v["msg"]))
        if hit:
            print("VIOLATION property=%s replay=%s" % (prop, path))
            return 1
        return 0
    if prop not in CHECKS:
        print("no check registered for %s" % prop)
        return 2
    fams = list(CHECKS[prop][tier])
    scale = None
    for a in argv:
        if a.startswith("--scale="):
            scale = float(a.split("=", 1)[1])
    if scale:
        fams = [(f, max(1, int(n * scale))) for f, n in fams]
    t0 = time.time()
    print("check %s tier=%s VERIF_SEED=%d families=%r" % (prop, tier, seed, fams))
    sys.stdout.flush()
    det_problems, det_n = runner.determinism_sample(fams, tier, seed, n=4)
    merged = runner.run_batch(prop, fams, tier, seed)
    known = runner.load_known()
    viols = merged["violations"]
    new = []
    known_hits = {}
    for v in viols:
        k = runner.known_match(known, prop, v["sig"])
        if k is not None:
            known_hits[v["sig"]] = known_hits.get(v["sig"], 0) + 1
        else:
            new.append(v)
    for sig, n in sorted(known_hits.items()):
        k = runner.known_match(known, prop, sig)
        print("KNOWN-FINDING: property=%s %s (%s; seen in %d runs)" % (prop, sig, k.get("what", ""), n))
    rc = 0
    replay_paths = []
    if new:
        # shrink and report the first violation of each distinct signature (at most 3)
        seen = set()
        for v in new:
            if v["sig"] in seen or len(seen) >= 3:
                continue
            seen.add(v["sig"])
            mod = runner.family(v["family"])
            plan = mod.plans_for(v["seed"], tier)[v["idx"]]
            # (VERIF_NO_SHRINK: the sensitivity self-test only needs the verdict, not a minimised replay)
            small, ok = (plan, False) if os.environ.get("VERIF_NO_SHRINK") else runner.shrink(plan, prop, v["sig"], budget=150)
            res = runner.run_plan_dict(small)
            path = runner.write_replay(prop, v, small, ok, res)
            replay_paths.append(path)
            print("violation: %s %s" % (v["sig"], v["msg"]))
            print("VIOLATION property=%s replay=%s" % (prop, path))
        rc = 1
    wall = time.time() - t0
    if det_problems:
        print("HARNESS-ERROR determinism: %s" % "; ".join(det_problems[:3]))
    if merged["harness"]:
        print("HARNESS-ERROR %d runs failed inside the harness, e.g. %s" % (len(merged["harness"]), json.dumps(merged["harness"][0])[:600]))
    path = _evidence(prop, tier, seed, merged, wall, len(new), known_hits, det_problems, det_n, fams)
    print("runs=%d events=%d sim_s=%.1f distinct_orders=%d nontrivial=%d obligations=%d wall=%.1fs evidence=%s" % (
        merged["runs"], merged["events"], merged["sim_time"], len(merged["orders"]), len(merged["nontrivial_orders"]),
        merged["obligations"], wall, path))
    if rc == 0 and (det_problems or merged["harness"] or merged["runs"] == 0):
        return 2
    return rc


if __name__ == "__main__":
    sys.exit(main(sys.argv[1:]))
