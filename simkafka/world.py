"""Build a simulated world from a plan: sim, network, cluster, real KafkaClient(s); common observers."""
import struct

from . import kwire, logcap, use_afkak_src
from .cluster import SimCluster
from .core import HarnessError, ProcReactor, Sim
from .net import SimNet
from .observe import RunResult, frames_of, watch


class SeededRandom(object):
    """Stands in for the ``random`` module inside afkak.client (shuffle only)."""

    def __init__(self, rng):
        self._rng = rng

    def shuffle(self, x):
        self._rng.shuffle(x)

    def random(self):
        return self._rng.random()

    def randint(self, a, b):
        return self._rng.randint(a, b)


class SimTime(object):
    def __init__(self, sim):
        self.sim = sim

    def time(self):
        return 1600000000.0 + self.sim.now


class Observed(object):
    """Transparent forwarder around KafkaClient that records calls made by Producer/Consumer/Group.

    It adds one pass-through callback to the very Deferred the real client returned (same object, so
    cancellation is untouched)."""

    _RECORDED = ("send_produce_request", "send_fetch_request", "send_offset_request", "send_offset_fetch_request",
                 "send_offset_commit_request", "load_metadata_for_topics", "_send_request_to_coordinator",
                 "_get_coordinator_for_group", "_load_topic_partitions")

    def __init__(self, client, sim, tag=""):
        object.__setattr__(self, "_c", client)
        object.__setattr__(self, "_sim", sim)
        object.__setattr__(self, "_tag", tag)
        object.__setattr__(self, "calls", [])
        object.__setattr__(self, "hooks", [])

    def __getattr__(self, name):
        attr = getattr(self._c, name)
        if name in Observed._RECORDED:
            return self._wrap(name, attr)
        return attr

    def __setattr__(self, name, value):
        setattr(self._c, name, value)

    def _wrap(self, name, fn):
        sim = self._sim
        calls = self.calls
        hooks = self.hooks

        def call(*args, **kw):
            rec = {"n": len(calls), "name": name, "args": args, "kw": kw, "t": sim.now, "seq": len(sim.log),
                   "done": False, "ok": None, "result": None, "t_done": None, "seq_done": None, "tag": self._tag}
            calls.append(rec)
            sim.record("api", self._tag, name, _brief_args(name, args, kw))
            sim.mark("api", name)
            for h in hooks:
                h("call", rec)
            d = fn(*args, **kw)

            def done(result):
                rec["done"] = True
                rec["t_done"] = sim.now
                rec["seq_done"] = len(sim.log)
                from twisted.python.failure import Failure
                rec["ok"] = not isinstance(result, Failure)
                rec["result"] = result
                sim.record("api_done", self._tag, name, rec["n"], "ok" if rec["ok"] else result.type.__name__)
                for h in hooks:
                    h("done", rec)
                return result

            d.addBoth(done)
            rec["d"] = d
            return d

        return call


def _brief_args(name, args, kw):
    try:
        if name == "send_produce_request":
            pl = args[0] if args else kw.get("payloads")
            return ",".join("%s/%d:%d" % (p.topic, p.partition, len(p.messages)) for p in pl)
        if name == "send_fetch_request":
            pl = args[0] if args else kw.get("payloads")
            return ",".join("%s/%d@%d<%d" % (p.topic, p.partition, p.offset, p.max_bytes) for p in pl)
        if name == "send_offset_commit_request":
            pl = args[1] if len(args) > 1 else kw.get("payloads")
            return ",".join("%s/%d=%d" % (p.topic, p.partition, p.offset) for p in pl) + " g%s" % kw.get("group_generation_id")
        if name == "send_offset_request":
            pl = args[0] if args else kw.get("payloads")
            return ",".join("%s/%d t%d" % (p.topic, p.partition, p.time) for p in pl)
        if name == "_send_request_to_coordinator":
            p = kw.get("payload") if "payload" in kw else args[1]
            return type(p).__name__
        if name in ("load_metadata_for_topics", "_load_topic_partitions"):
            return ",".join(args)
    except Exception:
        pass
    return ""


class World(object):
    """Everything one run needs.  ``plan['cfg']`` keys used here:

    lat, seg (c2s, s2c) or "mixed", shuffle_ties, brokers (n), topics [{name, parts | part_ids, leaders}],
    client {timeout_ms, discover, retry, disconnect_on_timeout, client_id, bootstrap}, apiversions {node: spec},
    connect_timeout, late_timers
    """

    def __init__(self, plan, max_events=150000):
        use_afkak_src()
        import logging
        logging.getLogger("afkak").addHandler(logging.NullHandler())  # afkak._group installs none itself
        cfg = plan["cfg"]
        self.plan = plan
        self.cfg = cfg
        self.sim = sim = Sim(plan["seed"], shuffle_ties=cfg.get("shuffle_ties", False), max_events=max_events)
        self.res = RunResult()
        seg = cfg.get("seg", ("coalesce", "coalesce"))
        if seg == "mixed":
            from .net import SEG_POLICIES

            def seg(cid, rng):
                return (rng.choice(SEG_POLICIES), rng.choice(SEG_POLICIES))
        else:
            seg = tuple(seg)
        self.net = SimNet(sim, lat=tuple(cfg.get("lat", (0.0005, 0.003))), connect_timeout=cfg.get("connect_timeout", 30.0), seg=seg,
                          close_lat=tuple(cfg.get("close_lat", (0.0, 0.001))))
        self.cluster = SimCluster(sim, self.net, self.res)
        for n in range(1, cfg.get("brokers", 1) + 1):
            b = self.cluster.add_broker(n)
            spec = (cfg.get("apiversions") or {}).get(str(n))
            if spec is not None:
                b.api_versions = spec if isinstance(spec, str) else [tuple(x) for x in spec]
        for t in cfg.get("topics", []):
            self.cluster.add_topic(t["name"], t.get("parts", 1), leaders=t.get("leaders"), part_ids=t.get("part_ids"))
        self.cluster.auto_create = cfg.get("auto_create", False)

        def resolve():
            # a bootstrap name resolves, like DNS, to whatever address a broker currently has
            al = sorted(self.cluster.alive(), key=lambda b: b.node)
            if not al:
                return None
            b = al[self.sim.rng("dns").randrange(len(al))]
            return (b.host, b.port)

        self.net.aliases[("kafka", 9092)] = resolve
        for r in plan.get("faults", []):
            if "api" in r or r.get("kind") == "rule":
                self.cluster.add_rule(r)
        self.clients = {}
        self.reactors = {}
        self.resp_delivery = {}  # cid -> list of [wire_end, entry] awaiting delivery to the client
        self.cluster.on_response = self._on_response
        self.net.on_client_data = self._on_client_data
        self._patch_modules()
        sim.record("seed", plan["seed"])
        logcap.begin_run()
        self._schedule_cluster_faults()

    # -- module-level seams (no source change) --
    def _patch_modules(self):
        import afkak.client
        import afkak.kafkacodec
        import afkak.partitioner
        afkak.client.random = SeededRandom(self.sim.rng("afkak.random"))
        prng = self.sim.rng("afkak.partitioner")
        afkak.partitioner.randint = lambda a, b: prng.randint(a, b)
        afkak.kafkacodec.time = SimTime(self.sim)

    def make_client(self, pid="p0", **over):
        from afkak.client import KafkaClient
        ccfg = dict(self.cfg.get("client", {}))
        ccfg.update(over)
        late = self.cfg.get("late_timers") or 0.0
        # a busy reactor fires timers late, never early
        reactor = ProcReactor(self.sim, pid, lateness=(self.sim.rng("late/%s" % pid), late) if late else None)
        table = ccfg.get("retry", [0.05, 0.1, 0.2])
        calls = []

        def policy(k):
            calls.append(k)
            return table[min(k, len(table)) - 1]

        hosts = ccfg.get("bootstrap") or ["kafka:9092"]
        client = KafkaClient(
            hosts, clientId=ccfg.get("client_id", "sim-" + pid), timeout=ccfg.get("timeout_ms", 10000),
            disconnect_on_timeout=ccfg.get("disconnect_on_timeout", False), correlation_id=ccfg.get("correlation_id", 0),
            reactor=reactor, endpoint_factory=self.net.endpoint, retry_policy=policy,
            enable_protocol_version_discovery=ccfg.get("discover", False))
        client.sim_policy_calls = calls
        self.clients[pid] = client
        self.reactors[pid] = reactor
        return client

    # -- response delivery tracking ("what the client was told, and when") --
    def _on_response(self, entry, body, raw):
        conn = self.net.conns[entry["cid"]]
        end = len(conn.server_sent) + 4 + len(raw)
        self.resp_delivery.setdefault(conn.cid, []).append([end, entry])

    def _on_client_data(self, conn, data, before):
        # called just before proto.dataReceived(data): the bytes are being handed to the client now
        if not before:
            return
        lst = self.resp_delivery.get(conn.cid)
        if not lst:
            return
        got = len(conn.client_received)
        while lst and lst[0][0] <= got:
            _end, entry = lst.pop(0)
            entry["delivered_t"] = self.sim.now
            entry["delivered_seq"] = len(self.sim.log) - 1  # index of the c_recv record of this delivery

    # -- timed cluster faults --
    def _schedule_cluster_faults(self):
        cl = self.cluster
        for f in self.plan.get("faults", []):
            if "t" not in f:
                continue
            act = f["act"]
            if act == "move_leader":
                self.sim.at(f["t"], cl.move_leader, f["topic"], f["partition"], f["to"])
            elif act == "broker_down":
                self.sim.at(f["t"], cl.broker_down, f["node"], f.get("elect", True))
            elif act == "broker_up":
                self.sim.at(f["t"], cl.broker_up, f["node"], f.get("host"), f.get("port"))
            elif act == "freeze_meta":
                self.sim.at(f["t"], cl.freeze_metadata, f["node"])
            elif act == "thaw_meta":
                self.sim.at(f["t"], cl.thaw_metadata, f["node"])
            elif act == "advance_log_start":
                self.sim.at(f["t"], cl.advance_log_start, f["topic"], f["partition"], f["to"])
            elif act == "move_coordinator":
                self.sim.at(f["t"], self._move_coordinator, f["group"], f["to"])
            elif act == "stall":
                self.sim.at(f["t"], self._stall_all, f["node"], f["dir"], f["secs"])
            elif act == "cut_conns":
                self.sim.at(f["t"], self._cut_conns, f.get("node"))
            elif act == "add_partitions":
                self.sim.at(f["t"], self._add_partitions, f["topic"], f["n"])
            elif act == "delete_topic":
                self.sim.at(f["t"], cl.delete_topic, f["topic"])
            elif act == "shrink_topic":
                self.sim.at(f["t"], cl.shrink_topic, f["topic"])
            elif act == "hide_broker":
                self.sim.at(f["t"], cl.hide_broker, f["node"])
            elif act == "retire_broker":
                self.sim.at(f["t"], self._retire_broker, f["node"])
            else:
                raise HarnessError("unknown timed fault %r" % (act,))

    def _retire_broker(self, node):
        """The broker leaves the cluster for good (leaders and coordinators move first): not a fault that heals."""
        cl = self.cluster
        if len(cl.alive()) < 2 or not cl.brokers[node].up:
            return
        self.net.fault("broker_retired")
        cl.broker_down(node, True)
        cl.brokers[node].retired = True

    def _move_coordinator(self, group, to):
        if getattr(self.cluster.brokers.get(to), "retired", False):
            return  # a broker that left the cluster is given no groups
        self.net.fault("coordinator_move")
        self.cluster.coordinator_of[group] = to

    def _stall_all(self, node, direction, secs):
        self.net.fault("stall")
        for c in self.net.conns:
            if not c.client_lost and c.port == self.cluster.brokers[node].port and c.host == self.cluster.brokers[node].host:
                c.stall(direction, secs)

    def _cut_conns(self, node):
        self.net.fault("cut_conns")
        for c in self.net.conns:
            if not c.client_lost and not c.server_lost:
                if node is None or (c.host == self.cluster.brokers[node].host and c.port == self.cluster.brokers[node].port):
                    c.reset()

    def _add_partitions(self, topic, n):
        from .cluster import Partition
        t = self.cluster.topics.get(topic)
        if t is None:
            return
        self.net.fault("add_partitions")
        nodes = sorted(b.node for b in self.cluster.alive())
        if not nodes:
            return
        for _ in range(n):
            pid = max(t.partitions) + 1
            t.partitions[pid] = Partition(topic, pid, nodes[pid % len(nodes)], nodes[:1])

    def heal(self):
        """End of the fault phase: brokers up, metadata truthful, rules disarmed."""
        cl = self.cluster
        for b in cl.brokers.values():
            if not b.up and not getattr(b, "retired", False):
                cl.broker_up(b.node)
            b.frozen_meta = None
            b.hidden = False
        alive = sorted(b.node for b in cl.alive())
        for t in cl.topics.values():
            for p in t.partitions.values():
                if p.leader == -1 or p.leader not in alive:
                    p.leader = alive[p.pid % len(alive)]
        for r in cl.rules:
            r["nth"] = -10 ** 9
            r["count"] = 0
        self.net.connect_rules[:] = []
        # a connection the broker stopped serving is a persisting fault: the healed broker drops it
        for b in cl.brokers.values():
            for st in b.conns.values():
                if st["muted_forever"] and not st["dead"]:
                    st["conn"].reset()
        self.sim.record("heal")

    # -- C04: every frame that reached a broker --
    def check_wire(self, prop="C04"):
        res = self.res
        cl = self.cluster
        for we in cl.wire_errors:
            key = we.get("key")
            name = kwire.API_NAMES.get(key, "?")
            err = we["error"]
            if "stray bytes" in err:
                sig = "C04:stray-bytes-after-body:%s-v%s" % (name, we.get("version"))
            elif "message format 1 inside" in err:
                sig = "C04:message-format-1-in-produce-v0"
            else:
                sig = "C04:request-does-not-parse:%s" % name
            res.violate(prop, sig, "request #%s: %s" % (we.get("seq"), err))
        seen = {}
        for e in cl.reqlog:
            if e["corr"] is None:
                continue
            res.oblige(prop)
            k = (e["cid"], e["corr"])
            if k in seen:
                # (reuse of an id on one connection is not forbidden by the statement - fetch_api_versions() does it
                # when it retries - so this is recorded, not judged)
                res.probe("note_correlation_id_reused_on_connection")
            seen[k] = True
            client = self.clients.get(e["pid"])
            if client is not None and "client_id" in e:
                want = client.clientId if isinstance(client.clientId, str) else client.clientId.decode()
                if e["client_id"] != want:
                    res.violate(prop, "C04:client-id-mismatch", "sent %r configured %r" % (e["client_id"], want))

    def finish(self):
        from .scen_bc import _finish
        res = self.res
        for where, etype, msg, frames in self.sim.uncaught:
            res.notes.append("uncaught %s at %s: %s %r" % (etype, where, msg, frames))
        res.uncaught = [list(u[:3]) + [u[3]] for u in self.sim.uncaught]
        return _finish(self.sim, res, self.net)

    def restore_modules(self):
        import random
        import time
        from random import randint

        import afkak.client
        import afkak.kafkacodec
        import afkak.partitioner
        afkak.client.random = random
        afkak.partitioner.randint = randint
        afkak.kafkacodec.time = time
        afkak.partitioner.RoundRobinPartitioner.randomStart = False


def client_frames(conn):
    """Requests the client wrote on this connection: list of (frame_bytes, t_written_complete)."""
    out = []
    buf = bytearray()
    for t, data in conn.client_writes:
        buf += data
        frames, used, _over = frames_of(buf)
        del buf[:used]
        for f in frames:
            out.append((f, t))
    return out
