"""Family PR: real Producer + real KafkaClient against the simulated cluster.

Decides C01 (truthful acknowledgements, exactly-once fire), C09 (per-partition order, retry discipline),
C19 (batching thresholds / time limit / cancellation / stop), C18 (partition choice end to end),
C04 (every produce frame and its surroundings parse and match what the caller supplied) and the
producer half of C08 (recovery after leader moves / restarts / address changes).
"""
import random

from . import kwire
from .core import HarnessError
from .observe import watch
from .refs import close, java_partition
from .world import Observed, World, client_frames

FAMILY = "pr"
SHRINK_LISTS = ("faults", "ops")
FACTOR = 1.20205

PASS_THROUGH_CODES = (3, 6)
RETRY_CODES = (5, 7, 19, 20, 13, 10, 2, 999)


def simplify(plan):
    cfg = plan["cfg"]
    for key, val in (("shuffle_ties", False), ("seg", ["coalesce", "coalesce"]), ("lat", [0.0, 0.0])):
        if cfg.get(key) != val:
            c = dict(plan)
            c["cfg"] = dict(cfg)
            c["cfg"][key] = val
            yield c
    pc = cfg["producer"]
    for key, val in (("codec", 0), ("partitioner", "rr")):
        if pc.get(key) != val:
            c = dict(plan)
            c["cfg"] = dict(cfg)
            c["cfg"]["producer"] = dict(pc)
            c["cfg"]["producer"][key] = val
            yield c
    for i, o in enumerate(plan["ops"]):
        if o.get("op") == "send" and (len(o["msgs"]) > 1 or any(m not in (None, 0) for m in o["msgs"])):
            c = dict(plan)
            c["ops"] = [dict(x) for x in plan["ops"]]
            c["ops"][i]["msgs"] = [0]
            yield c


# ---------------------------------------------------------------------------------------------
# plan generation
# ---------------------------------------------------------------------------------------------

def gen_plan(seed, tier="quick", variant=None):
    rng = random.Random(seed * 104729 + 3)
    thorough = tier == "thorough"
    if variant is None:
        variant = rng.choice(["faulty", "faulty", "clean", "recovery", "outage"])
    clean = variant == "clean"
    nb = rng.randint(1, 4)
    if variant == "outage":
        nb = max(nb, 2)
    topics = []
    for i in range(rng.randint(1, 3)):
        np_ = rng.randint(1, 4)
        topics.append({"name": "t%d" % i, "parts": np_})
    instant = rng.random() < (0.4 if clean else 0.15)
    discover = rng.random() < 0.6
    apiv = {}
    if discover and not clean:
        for n in range(1, nb + 1):
            r = rng.random()
            if r < 0.15:
                apiv[str(n)] = "none-close"
            elif r < 0.25:
                apiv[str(n)] = "none-silent"
            elif r < 0.5:
                from .cluster import version_table
                apiv[str(n)] = version_table(*rng.choice([(3, 3), (5, 6), (8, 11), (2, 11), (9, 2)]))
    timeout_ms = 5000 if clean else rng.choice([300, 1000, 5000])
    batch = rng.random() < (0.85 if clean else 0.6)
    pc = {
        "acks": rng.choice([1, 1, -1, 0]),
        "batch_send": batch,
        "every_n": rng.choice([0, 1, 2, 3, 5, 10]) if batch else None,
        "every_b": rng.choice([0, 1, 50, 200, 1000]) if batch else None,
        "every_t": rng.choice([None, 0.05, 0.3, 1.0]) if batch else None,
        "codec": rng.choice([0, 0, 1]),
        "max_attempts": rng.choice([1, 2, 3, 5, 10]),
        "retry_interval": rng.choice([0.01, 0.05, 0.25]),
        "partitioner": rng.choice(["rr", "rr", "rr_random", "hashed"]),
        "ack_timeout": rng.choice([100, 1000]),
    }
    if clean and batch and rng.random() < 0.6:
        pc["every_n"] = rng.choice([3, 4, 6, 10])
        pc["every_b"] = rng.choice([0, 0, 2000])
        pc["every_t"] = rng.choice([None, 1.0, 2.0])
    if batch and not pc["every_n"] and not pc["every_b"] and not pc["every_t"]:
        pc["every_t"] = 0.3
    cfg = {
        "variant": variant, "brokers": nb, "topics": topics,
        "lat": [0.0, 0.0] if instant else [0.0005, rng.choice([0.002, 0.01])],
        "seg": [rng.choice(["coalesce", "writes", "random"]), rng.choice(["coalesce", "writes", "random"])] if clean
        else ("mixed" if rng.random() < 0.5 else ["coalesce", "coalesce"]),
        "shuffle_ties": rng.random() < 0.5,
        "client": {"timeout_ms": timeout_ms, "discover": discover, "retry": [round(rng.choice([0.01, 0.05, 0.2]), 3) for _ in range(3)]},
        "apiversions": apiv, "producer": pc, "connect_timeout": rng.choice([0.5, 2.0]),
        "late_timers": random.Random(seed * 7919 + 5).choice([0.0, 0.0, 0.0, 0.002, 0.03]),
        "warm": clean or rng.random() < 0.3,
    }
    ops = []
    nsend = rng.randint(1, 25 if thorough else 14)
    horizon = rng.choice([0.05, 0.3, 1.5])
    for i in range(nsend):
        topic = rng.choice(topics)["name"]
        if rng.random() < 0.04:
            topic = "nosuch"
        nm = rng.choice([1, 1, 1, 2, 3])
        msgs = [rng.choice([0, 0, 5, 40, 300, None, 2000 if thorough else 90]) for _ in range(nm)]
        key = None
        if pc["partitioner"] == "hashed" or rng.random() < 0.5:
            kl = rng.choice([0, 1, 2, 3, 4, 5, 7, 8, 13])
            key = "".join("%02x" % rng.choice([rng.randint(0, 255), rng.randint(128, 255)]) for _ in range(kl))
            if pc["partitioner"] != "hashed" and rng.random() < 0.5:
                key = ("6b%04x" % i)
        if None in msgs:
            # a null message is identified by its key only: give it a key no other send has
            if key is None or len(key) < 6:
                msgs = [0 if m is None else m for m in msgs]
            else:
                key = "%04x" % i + key[4:]
        ops.append({"t": round(rng.random() * horizon, 6), "op": "send", "id": i, "topic": topic, "key": key, "msgs": msgs})
    for _ in range(rng.choice([0, 0, 1, 2, 3])):
        ops.append({"t": round(rng.random() * horizon * 1.2, 6), "op": "cancel", "id": rng.randint(0, nsend - 1)})
    if clean:
        # cancels that land while the send is still queued (right after it was issued)
        for _ in range(rng.choice([0, 1, 2, 3])):
            victim = rng.choice([o for o in ops if o["op"] == "send"])
            ops.append({"t": round(victim["t"] + rng.choice([0.0, 0.0001, 0.002]), 6), "op": "cancel", "id": victim["id"]})
    for _ in range(rng.choice([0, 0, 1, 2])):
        ops.append({"on": rng.randint(0, 4), "delay": round(rng.choice([0.0, 0.0002, 0.002, 0.02]), 6), "op": "cancel",
                    "id": rng.randint(0, nsend - 1)})
    if discover and not clean and random.Random(seed * 139 + 5).random() < 0.3:
        # overlapping version discoveries with different fates: ApiVersions goes unanswered for a while, then is answered
        r7 = random.Random(seed * 139 + 6)
        t_first = min(o["t"] for o in ops if o["op"] == "send")
        tmo = timeout_ms / 1000.0
        for _ in range(r7.choice([1, 2])):
            ops.append({"t": round(t_first + tmo * r7.choice([0.3, 0.6, 1.2, 2.5]), 6), "op": "versions"})
        apiv.clear()
        cfg["warm"] = True
    if variant in ("faulty", "clean") and batch and random.Random(seed * 131 + 7).random() < 0.15:
        # late cancel of a send whose partition lookup is still going on (and will fail): its batch-mates must go out
        r2 = random.Random(seed * 131 + 8)
        victim = r2.choice([o for o in ops if o["op"] == "send"])
        victim["topic"] = "nosuch"
        ops.append({"on_lookup": r2.randint(0, 2), "delay": round(r2.choice([0.0005, 0.01, 0.1]), 6), "op": "cancel", "id": victim["id"]})
        pc["max_attempts"] = min(pc["max_attempts"], 3)
    if rng.random() < 0.25 and variant != "recovery":
        if rng.random() < 0.5:
            ops.append({"t": round(rng.random() * horizon * 1.5, 6), "op": "stop"})
        else:
            ops.append({"on": rng.randint(0, 4), "delay": round(rng.choice([0.0, 0.0003, 0.003, 0.05]), 6), "op": "stop"})
    faults = []
    if not clean:
        nf = rng.choice([0, 1, 2, 3, 5])
        for _ in range(nf):
            kind = rng.choice(["error", "error", "error_persist", "error_after_apply", "silent", "cut_before", "cut_mid",
                               "cut_after", "delay", "move_leader", "meta_error", "refuse", "broker_bounce", "stale", "add_partitions", "add_partitions",
                               "versions_error"])
            node = rng.choice([None] + list(range(1, nb + 1)))
            if kind == "versions_error":
                # discovery answered with an error code (UNSUPPORTED_VERSION, or anything): with or without entries listed
                faults.append({"api": 18, "node": None, "nth": 0, "act": "error", "code": rng.choice([35, 35, 35, 2, 42, 999]), "count": rng.choice([1, 1, 3])})
                continue
            if kind in ("error", "error_persist", "error_after_apply"):
                f = {"api": 0, "node": node, "nth": rng.randint(0, 5), "act": "error" if kind != "error_after_apply" else "error_after_apply",
                     "code": rng.choice(PASS_THROUGH_CODES + RETRY_CODES)}
                if kind == "error_persist":
                    f["count"] = rng.choice([2, 5, 12, 40])
                if rng.random() < 0.4:
                    f["only"] = [rng.randint(0, 2)]
                faults.append(f)
            elif kind in ("silent", "cut_before", "cut_mid", "cut_after"):
                f = {"api": rng.choice([0, 0, 0, 3, 18]), "node": node, "nth": rng.randint(0, 5), "act": kind}
                if kind == "cut_mid":
                    f["frac"] = rng.random()
                if rng.random() < 0.3:
                    f["count"] = rng.choice([2, 4, 12])
                faults.append(f)
            elif kind == "delay":
                faults.append({"api": rng.choice([0, 3]), "node": node, "nth": rng.randint(0, 5), "act": "delay",
                               "delay": round(rng.choice([0.01, 0.2, timeout_ms / 1000.0 * 0.99, timeout_ms / 1000.0 * 1.2]), 6)})
            elif kind == "move_leader":
                t = rng.choice(topics)
                faults.append({"t": round(rng.random() * horizon * 1.5, 6), "act": "move_leader", "topic": t["name"],
                               "partition": rng.randint(0, t["parts"] - 1), "to": rng.choice(list(range(1, nb + 1)) + [-1])})
            elif kind == "meta_error":
                faults.append({"api": 3, "node": node, "nth": rng.randint(0, 4), "act": "error", "code": rng.choice([5, 3, 999]),
                               "count": rng.choice([1, 2, 6])})
            elif kind == "refuse":
                faults.append({"kind": "connect", "nth": rng.randint(0, 6), "what": rng.choice(["refused", "blackhole", "dns", "sync_fail"]),
                               "count": rng.choice([1, 2, 5])})
            elif kind == "broker_bounce" and nb > 1:
                n = rng.randint(1, nb)
                t0 = round(rng.random() * horizon, 6)
                faults.append({"t": t0, "act": "broker_down", "node": n, "elect": rng.random() < 0.8})
                up = {"t": round(t0 + rng.choice([0.05, 0.5, 3.0]), 6), "act": "broker_up", "node": n}
                if rng.random() < 0.4:
                    up["host"] = "b%dx" % n
                    up["port"] = 9192
                faults.append(up)
            elif kind == "add_partitions":
                faults.append({"t": round(rng.random() * horizon, 6), "act": "add_partitions", "topic": rng.choice(topics)["name"], "n": rng.randint(1, 3)})
                # the client learns of them when its cache is invalidated: a NotLeader answer does that
                faults.append({"api": 0, "node": None, "nth": rng.randint(1, 4), "act": "error", "code": 6})
            elif kind == "stale" and nb > 1:
                n = rng.randint(1, nb)
                t0 = round(rng.random() * horizon, 6)
                faults.append({"t": t0, "act": "freeze_meta", "node": n})
                faults.append({"t": round(t0 + rng.choice([0.1, 1.0]), 6), "act": "thaw_meta", "node": n})
    if any(o["op"] == "versions" for o in ops):
        r8 = random.Random(seed * 139 + 7)
        k = r8.choice([nb + 1, 2 * (nb + 1), 3 * (nb + 1) - 1, 3 * (nb + 1), 3 * (nb + 1) + 1])
        faults.append({"api": 18, "node": None, "nth": 0, "act": "silent", "count": k})
        if r8.random() < 0.5:
            faults.append({"api": 18, "node": None, "nth": k, "act": "delay", "delay": round(timeout_ms / 1000.0 * r8.choice([0.5, 0.9]), 6), "count": 2})
    if variant == "outage":
        # one of several brokers is unreachable - its partitions leaderless or still pointing at it - across several
        # attempts of one batch while the others acknowledge: partial failure, then total failure of the retry, then success
        for t in topics:
            t["parts"] = max(t["parts"], 3)
        pc["acks"] = rng.choice([0, 0, 1, -1])
        pc.update(max_attempts=rng.choice([5, 10]), retry_interval=rng.choice([0.05, 0.1]), batch_send=True, every_n=rng.choice([3, 5]), every_b=0, every_t=0.3)
        cfg["client"]["timeout_ms"] = rng.choice([300, 1000])
        cfg["warm"] = rng.random() < 0.8  # a warm cache still names the dead broker: its request fails alone, by timeout
        n = rng.randint(1, nb)
        t0 = round(rng.random() * horizon * 0.3, 6)
        faults = faults[:1] + [{"t": t0, "act": "broker_down", "node": n, "elect": rng.random() < 0.3},
                               {"t": round(t0 + rng.choice([0.6, 1.5, 3.0]), 6), "act": "broker_up", "node": n}]
        if nb > 1 and rng.random() < 0.3:
            # ... or the broker leaves for good (leadership moves first): the only signal a producer without acknowledgements
            # ever gets that its routing is stale is the failed transmission
            faults = [{"t": t0, "act": "retire_broker", "node": n}]
            cfg["warm"] = True
        # a burst of sends right after the broker went away, spread over the partitions: one batch spans dead and healthy brokers
        pc["partitioner"] = rng.choice(["rr", "rr", "hashed"])
        sends_ = [o for o in ops if o["op"] == "send"]
        for o in sends_:
            o["t"] = round(t0 + 0.01 + rng.random() * 0.05, 6)
            if o["topic"] != "nosuch" and rng.random() < 0.8:
                o["topic"] = topics[0]["name"]
        pc["every_n"] = max(2, min(len(sends_), rng.choice([4, 6])))
    if len([o for o in ops if o["op"] == "send"]) > 1 and random.Random(seed * 137 + 3).random() < 0.25:
        # a result callback that cancels other sends (one issued before it, one after it)
        r4 = random.Random(seed * 137 + 4)
        ss = [o for o in ops if o["op"] == "send"]
        if r4.random() < 0.3 and variant != "recovery":
            # ... or that stops the producer, or sends the next message
            a = r4.choice(ss)
            if r4.random() < 0.5:
                ops.append({"after_send": a["id"], "op": "stop"})
            else:
                ops.append({"after_send": a["id"], "op": "send", "id": 500 + a["id"], "topic": a["topic"], "key": a["key"], "msgs": [5]})
        for _ in range(r4.choice([1, 1, 2])):
            a, b = r4.sample(ss, 2)
            ops.append({"after_send": a["id"], "op": "cancel", "id": b["id"]})
            if r4.random() < 0.5 and None not in a["msgs"] and None not in b["msgs"]:
                b["topic"], b["key"] = a["topic"], a["key"]  # same partition when keyed: they share a payload
                # (a null message is identified by its key alone, so keys are only shared between sends without one)
    t_faults_end = round(max([horizon * 1.6] + [f["t"] for f in faults if "t" in f]) + 0.01, 6)
    post = []
    if variant == "recovery":
        # sends issued after the last fault: must succeed within the attempt budget (C08)
        pc["max_attempts"] = max(pc["max_attempts"], 5)
        pc["acks"] = pc["acks"] or 1
        if pc["batch_send"] and not pc["every_t"]:
            pc["every_t"] = 0.3
        # the documented budgets must fit: no byte-at-a-time network slower than the client timeout
        cfg["client"]["timeout_ms"] = max(cfg["client"]["timeout_ms"], 1000)
        if not instant:
            cfg["lat"] = [0.0005, 0.002]
        if cfg["seg"] == "mixed":
            cfg["seg"] = [rng.choice(["coalesce", "writes", "random"]), rng.choice(["coalesce", "writes", "random"])]
        for j in range(rng.randint(1, 4)):
            post.append({"id": 1000 + j, "topic": rng.choice(topics)["name"], "key": ("70%04x" % j) if pc["partitioner"] == "hashed" else None,
                         "msgs": [3], "dt": round(0.5 + rng.random(), 6)})
    if faults and all(f.get("act") == "retire_broker" for f in faults):
        # sends after the departure has been digested: whatever acknowledgement level, they must be stored
        for j in range(rng.randint(2, 4)):
            post.append({"id": 1000 + j, "topic": topics[0]["name"], "key": ("70%04x" % j) if pc["partitioner"] == "hashed" else None,
                         "msgs": [3], "dt": round(0.5 + rng.random(), 6)})
    plan = {"family": FAMILY, "seed": seed, "tier": tier, "cfg": cfg, "ops": ops, "faults": faults, "post": post,
            "t_faults_end": t_faults_end}
    return plan


def plans_for(seed, tier):
    return [gen_plan(seed, tier)]


# ---------------------------------------------------------------------------------------------
# helpers
# ---------------------------------------------------------------------------------------------

def _msg_bytes(send_id, j, spec):
    if spec is None:
        return None
    base = b"s%d.%d:" % (send_id, j)
    if spec == 0 and j % 2:
        return base
    return base + b"." * int(spec)


def _key_bytes(k):
    return None if k is None else bytes.fromhex(k)


def _payload_kvs(payload):
    """(key, value) list carried by an afkak ProduceRequest payload (decoding wrappers with the independent codec)."""
    out = []
    for m in payload.messages:
        if m.attributes & 0x07:
            entries, _ = kwire.parse_message_set(kwire._gunz(m.value), True, 1, True)
            for e in kwire.leaves(entries):
                out.append((e["key"], e["value"]))
        else:
            out.append((m.key, m.value))
    return out


def _contains(hay, needle):
    n = len(needle)
    for i in range(len(hay) - n + 1):
        if hay[i:i + n] == needle:
            return i
    return -1


# ---------------------------------------------------------------------------------------------
# run
# ---------------------------------------------------------------------------------------------

def run_plan(plan):
    w = World(plan)
    try:
        return _run(w, plan)
    finally:
        w.restore_modules()


def _run(w, plan):
    from afkak import partitioner as apart
    from afkak.common import CancelledError as AfkakCancelled
    from afkak.common import ProduceResponse
    from afkak.producer import Producer
    from twisted.internet.defer import CancelledError as TwistedCancelled

    cfg = plan["cfg"]
    pc = cfg["producer"]
    sim, res, net, cl = w.sim, w.res, w.net, w.cluster
    clean = cfg["variant"] == "clean"
    client = w.make_client()
    obs = Observed(client, sim, "prod")
    connect_rules = [f for f in plan["faults"] if f.get("kind") == "connect"]

    def connect_rule(att):
        for f in connect_rules:
            lo = f["nth"]
            if lo <= att["n"] < lo + f.get("count", 1):
                return {"kind": f["what"]}
        return None

    if connect_rules:
        net.connect_rules.append(connect_rule)

    state = {"producer": None, "stopped": False, "stop_seq": None, "t0": None, "stop_t": None}
    sends = {}  # id -> dict
    order = []  # send ids in issue order
    tp_versions = {}  # topic -> list of (logseq, tuple(partitions))

    def snap_partitions():
        for t, parts in client.topic_partitions.items():
            v = tp_versions.setdefault(t, [])
            tup = tuple(parts)
            if not v or v[-1][1] != tup:
                v.append((len(sim.log), tup))

    sim.after_event.append(snap_partitions)

    on_call_ops = {}
    for o in plan["ops"]:
        if "on" in o:
            on_call_ops.setdefault(o["on"], []).append(o)

    produce_calls = []

    on_lookup_ops = {}
    for o in plan["ops"]:
        if "on_lookup" in o:
            on_lookup_ops.setdefault(o["on_lookup"], []).append(o)
    lookups = {"n": 0}

    def api_hook(kind, rec):
        if rec["name"] == "load_metadata_for_topics" and kind == "call":
            k = lookups["n"]
            lookups["n"] += 1
            state.setdefault("lookup_seqs", []).append(rec["seq"])
            for o in on_lookup_ops.pop(k, ()):
                sim.after(o["delay"], do_op, o)
        if rec["name"] != "send_produce_request":
            return
        if kind == "call":
            k = len(produce_calls)
            rec["n_prod"] = k
            produce_calls.append(rec)
            payloads = rec["args"][0] if rec["args"] else rec["kw"].get("payloads")
            rec["kvs"] = {(p.topic, p.partition): _payload_kvs(p) for p in payloads}
            rec["tp_snapshot"] = {t: tuple(v) for t, v in client.topic_partitions.items()}
            if state["stopped"]:
                res.violate("C19", "C19:produce-call-after-stop", "send_produce_request issued after stop()", sim)
            for o in on_call_ops.pop(k, ()):
                sim.after(o["delay"], do_op, o)

    obs.hooks.append(api_hook)

    def make_producer():
        pcls = {"rr": apart.RoundRobinPartitioner, "rr_random": apart.RoundRobinPartitioner,
                "hashed": apart.HashedPartitioner}[pc["partitioner"]]
        apart.RoundRobinPartitioner.randomStart = pc["partitioner"] == "rr_random"
        kw = dict(partitioner_class=pcls, req_acks=pc["acks"], ack_timeout=pc["ack_timeout"], max_req_attempts=pc["max_attempts"],
                  retry_interval=pc["retry_interval"], codec=pc["codec"] or None, batch_send=pc["batch_send"])
        if pc["batch_send"]:
            kw.update(batch_every_n=pc["every_n"], batch_every_b=pc["every_b"], batch_every_t=pc["every_t"])
        import warnings
        with warnings.catch_warnings():
            warnings.simplefilter("ignore")
            state["producer"] = Producer(obs, **kw)
        state["t0"] = sim.now
        sim.record("producer_created")

    after_send_ops = {}
    for o in plan["ops"]:
        if "after_send" in o:
            after_send_ops.setdefault(o["after_send"], []).append(o)

    def on_fire(wd):
        sid_ = int(wd.name.split("#")[1])
        s = sends[sid_]
        s["fire_seq"] = wd.seq
        s["fire_t"] = wd.t
        # the application reacting to one result from inside its callback (e.g. giving up on the sends that followed it)
        for o in after_send_ops.pop(sid_, ()):
            res.probe("op_from_inside_a_result_callback")
            if o["op"] == "cancel" and o["id"] in sends:
                sends[o["id"]].setdefault("cancel_trigger", sid_)
            do_op(o)

    def do_op(o):
        kind = o["op"]
        if kind == "send":
            if state["stopped"] and (o.get("post") or o["id"] % 3):
                return
            # (one send in three is also issued to a stopped producer: it must fail at once and reach no broker)
            if state["stopped"]:
                res.probe("send_to_a_stopped_producer")
            sid = o["id"]
            msgs = [_msg_bytes(sid, j, m) for j, m in enumerate(o["msgs"])]
            key = _key_bytes(o["key"])
            sim.record("op", "send", sid, o["topic"], len(msgs))
            opseq = len(sim.log) - 1
            sim.mark("op", "send")
            # recorded before the call: the call itself can dispatch a batch, and a result callback run by that
            # dispatch can issue further sends, which are later in send order than this one
            s = sends[sid] = {"id": sid, "topic": o["topic"], "key": key, "msgs": msgs, "t": sim.now, "seq": opseq,
                              "kvs": [(key, m) for m in msgs], "cancel_seq": None, "post": o.get("post", False),
                              "count": len(msgs), "bytes": sum(len(m) for m in msgs if m is not None), "w": None}
            order.append(sid)
            import warnings
            with warnings.catch_warnings():
                warnings.simplefilter("ignore")
                d = state["producer"].send_messages(o["topic"], key=key, msgs=msgs)
            s["w"] = watch(d, "send#%d" % sid, sim, on_fire)
            s["w"].d = d
        elif kind == "cancel":
            s = sends.get(o["id"])
            if s is None or s["w"] is None or s["w"].fires or state["stopped"]:
                return
            sim.record("op", "cancel", o["id"])
            sim.mark("op", "cancel")
            s["cancel_seq"] = len(sim.log) - 1
            s["w"].d.cancel()
        elif kind == "versions":
            # somebody else on the same client (a consumer, say) needs the API versions too: a second, overlapping discovery
            if state["stopped"]:
                return
            sim.record("op", "versions")
            try:
                dv = client.get_api_version(1)
                dv.addErrback(lambda f: None)
            except Exception:
                pass
        elif kind == "stop":
            if state["stopped"]:
                return
            sim.record("op", "stop")
            sim.mark("op", "stop")
            state["stop_seq"] = len(sim.log) - 1
            state["stop_t"] = sim.now
            # (a send whose Deferred is firing right now - we may be inside its callback - has no watcher record yet)
            state["outstanding_at_stop"] = [sid for sid in order if sends[sid].get("w") is not None and not sends[sid]["w"].fires]
            state["inflight_at_stop"] = any(not c["done"] for c in produce_calls)
            state["timers_at_stop"] = [dc.sim_creator for dc in w.reactors["p0"].pending() if dc.sim_creator == "producer.py"]
            sd = state["producer"].stop()
            state["stopped"] = True
            state["stop_w"] = watch(sd, "stop", sim)
            left = [dc.sim_creator for dc in w.reactors["p0"].pending() if dc.sim_creator.startswith("producer.py")]
            state["timers_after_stop"] = left
            not_failed = [sid for sid in state["outstanding_at_stop"] if not sends[sid]["w"].fires]
            state["unfired_after_stop"] = not_failed
        else:
            raise HarnessError("unknown op %r" % (kind,))

    # ---- start-up: optionally warm the client, then create the producer and schedule the workload ----
    t_base = [0.0]

    def start_workload():
        t_base[0] = sim.now
        make_producer()
        for o in plan["ops"]:
            if "t" in o:
                sim.at(t_base[0] + o["t"], do_op, o)
        tfe = t_base[0] + plan["t_faults_end"]
        sim.at(tfe, w.heal)
        for p in plan.get("post", []):
            sim.at(tfe + p["dt"], do_op, {"op": "send", "id": p["id"], "topic": p["topic"], "key": p["key"], "msgs": p["msgs"], "post": True})

    if cfg.get("warm"):
        def warm():
            from afkak.common import OffsetRequest
            d = client.load_metadata_for_topics()

            def then(_):
                pl = []
                for t in cfg["topics"]:
                    for p in range(t["parts"]):
                        pl.append(OffsetRequest(t["name"], p, -1, 1))
                d2 = client.send_offset_request(pl)
                if cfg["client"]["discover"]:
                    d2.addBoth(lambda _r: client.get_api_version(0))
                d2.addBoth(lambda _r: None)
                return d2

            d.addCallback(then)
            d.addErrback(lambda f: None)
            d.addBoth(lambda _r: sim.after(0.5, start_workload))

        sim.at(0.0, warm)
        # warm-up must not consume fault rules: rules only match Produce/Metadata n-th counts, so shift them after warm-up
        for r in cl.rules:
            r["_armed"] = False
    else:
        sim.at(0.0, start_workload)

    if cfg.get("warm"):
        # rules count matching requests from the start of the workload, not of the warm-up
        real_match = cl._match_rule

        def gated(node, key, body):
            if state["producer"] is None:
                return None
            return real_match(node, key, body)

        cl._match_rule = gated

    def run_until(t):
        try:
            sim.run(until=t)
        except HarnessError as e:
            res.harness_error = repr(e)

    # phase 1: workload + faults, then a fault-free tail that ends early once nothing is going on
    def quiet():
        if any(not c["done"] for c in obs.calls):
            return False
        if any(not dc.sim_creator.endswith(":loop") for dc in w.reactors["p0"].pending()):
            return False
        if any(not sends[sid]["w"].fires for sid in order) and ((not pc["batch_send"]) or pc["every_t"]):
            return False
        return True

    while state["producer"] is None and sim.now < 200.0 and res.harness_error is None:
        run_until(sim.now + 1.0)
    if state["producer"] is None:
        res.harness_error = "warm-up never finished"
        return w.finish()
    t_tail = t_base[0] + plan["t_faults_end"] + 3.0
    run_until(t_tail)
    while sim.now < 400.0 and not sim.overrun and res.harness_error is None:
        if quiet() and sim.now > t_base[0] + plan["t_faults_end"] + 2.5:
            break
        run_until(sim.now + 5.0)
    settle_t = sim.now
    liveness_applicable = (not pc["batch_send"]) or bool(pc["every_t"])
    unfired_before_stop = [sid for sid in order if not sends[sid]["w"].fires]
    if not state["stopped"]:
        sim.at(sim.now + 0.001, do_op, {"op": "stop"})
    run_until(sim.now + 100.0)
    closed = {}

    def do_close():
        closed["w"] = watch(client.close(), "close", sim)

    sim.at(sim.now + 0.001, do_close)
    run_until(sim.now + 100.0)

    if res.harness_error is None and sim.harness_errors:
        res.harness_error = sim.harness_errors[0]

    # =========================================================================================
    # oracles
    # =========================================================================================
    topics_parts = {t["name"]: t["parts"] for t in cfg["topics"]}
    # index of applied produce records by (topic, partition)
    applied_by_tp = {}
    for a in cl.applied:
        applied_by_tp.setdefault((a["topic"], a["partition"]), []).append(a)
    # which applied records were acknowledged without error on the wire, and when
    for e in cl.reqlog:
        if e["key"] != kwire.PRODUCE or e.get("resp_body") is None:
            continue
        okparts = set()
        for t in e["resp_body"]["topics"]:
            for p in t["partitions"]:
                if p["error"] == 0:
                    okparts.add((t["name"], p["partition"]))
        for a in cl.applied:
            if a["seq"] == e["seq"] and (a["topic"], a["partition"]) in okparts:
                a["acked_seq"] = e.get("delivered_seq")  # None if the ack never reached the client
                a["ack_offset"] = a["base"]
    # frames the client wrote (for acks=0 and for "nothing after stop")
    written = []  # (logseq_of_write_complete, t, hdr, body)
    for c in net.conns:
        if c.pid != "p0":
            continue
        for frame, t in client_frames(c):
            try:
                hdr, body = kwire.parse_request(frame)
            except kwire.WireError:
                continue
            written.append((t, c.cid, hdr, body))

    def written_kvs(body):
        out = {}
        for t in body["topics"]:
            for p in t["partitions"]:
                try:
                    ents, _ = kwire.parse_message_set(p["records"], True, 0, True)
                    out[(t["name"], p["partition"])] = [(x["key"], x["value"]) for x in kwire.leaves(ents)]
                except kwire.WireError:
                    out[(t["name"], p["partition"])] = None
        return out

    produce_written = [(t, cid, hdr, body, written_kvs(body)) for t, cid, hdr, body in written if hdr["key"] == kwire.PRODUCE]

    # ---- C01 ----
    for sid in order:
        s = sends[sid]
        wd = s["w"]
        res.oblige("C01")
        if wd.fires > 1:
            res.violate("C01", "C01:fired-more-than-once", "send %d" % sid)
        if wd.fires == 0:
            res.violate("C01", "C01:never-fired:even-after-stop", "send %d never fired although stop() was called" % sid)
            continue
        if not wd.ok:
            res.probe("send_failed_" + wd.err)
            continue
        v = wd.value
        if pc["acks"] == 0:
            if v is not None:
                res.violate("C01", "C01:success-value-is-not-an-ack:acks0-value-%s" % type(v).__name__,
                            "send %d succeeded with %r although acknowledgements are disabled" % (sid, v))
                continue
            # a produce frame with these messages was handed to a connection before the fire
            found = False
            for t, cid, hdr, body, kvs in produce_written:
                if t <= wd.t:
                    for tp, lst in kvs.items():
                        if tp[0] == s["topic"] and lst is not None and _contains(lst, s["kvs"]) >= 0:
                            found = True
            if not found:
                res.violate("C01", "C01:acks0-success-before-handed-to-connection",
                            "send %d succeeded but no produce frame carrying it had been written" % sid)
            else:
                res.probe("acks0_success_checked")
            continue
        if not isinstance(v, ProduceResponse):
            kind = "exception-object" if isinstance(v, BaseException) else type(v).__name__
            res.violate("C01", "C01:success-value-is-not-an-ack:%s" % kind,
                        "send %d succeeded with %r (%s) instead of a ProduceResponse" % (sid, v, type(v).__name__))
            continue
        if v.error != 0:
            res.violate("C01", "C01:success-with-error-code", "send %d succeeded with %r" % (sid, v))
            continue
        known_parts = set(range(topics_parts.get(s["topic"], 0)))
        if s["topic"] in cl.topics:
            known_parts |= set(cl.topics[s["topic"]].partitions)  # partitions may have been added during the run
        if v.topic != s["topic"] or v.partition not in known_parts:
            res.violate("C01", "C01:result-names-wrong-partition", "send %d: %r" % (sid, v))
            continue
        cands = applied_by_tp.get((v.topic, v.partition), [])
        ok = False
        why = "no applied produce request on %s/%d" % (v.topic, v.partition)
        for a in cands:
            if a["base"] != v.offset:
                continue
            why = "request at base offset %d does not contain the messages in order" % v.offset
            if _contains(a["kvs"], s["kvs"]) < 0:
                continue
            if "acked_seq" not in a:
                why = "broker did not acknowledge that request without error"
                continue
            if a["acked_seq"] is None or a["acked_seq"] > wd.seq:
                why = "acknowledgement reached the client after the Deferred fired (or never)"
                continue
            part = cl.part(v.topic, v.partition)
            ok = True
            break
        if not ok:
            res.violate("C01", "C01:success-without-matching-ack", "send %d -> %r: %s" % (sid, v, why))
        else:
            res.probe("ack_checked")
    # liveness: before stop(), with faults over and a time limit (or no batching), everything has resolved
    if liveness_applicable and unfired_before_stop and (state.get("stop_t") or 0) >= settle_t:
        res.violate("C01", "C01:never-fired:producer-quiescent-faults-over",
                    "sends %r still unresolved %.0f s after the last fault" % (unfired_before_stop[:5], settle_t - plan["t_faults_end"]))

    # ---- C19: cancelling one send only detaches its caller - the sends that were outstanding with it still get results ----
    if liveness_applicable and unfired_before_stop and (state.get("stop_t") or 0) >= settle_t:
        cancels = [sends[x] for x in order if sends[x]["cancel_seq"] is not None]
        hung = [x for x in unfired_before_stop if any(sends[x]["seq"] < c_["cancel_seq"] for c_ in cancels)]
        if hung:
            res.violate("C19", "C19:sends-outstanding-at-a-cancel-never-resolved",
                        "sends %r were outstanding when another send was cancelled and are still unresolved %.0f s after the last fault" % (
                            hung[:5], settle_t - plan["t_faults_end"]))
    # ---- C19 (one-directional clauses, every variant) ----
    for sid in order:
        s = sends[sid]
        if s["cancel_seq"] is None:
            continue
        res.oblige("C19")
        wd = s["w"]
        if not (wd.fires == 1 and not wd.ok and isinstance(wd.value, (AfkakCancelled, TwistedCancelled))):
            # cancelled by the caller: the caller's Deferred must fail with a cancellation error
            if wd.fires and wd.seq <= s["cancel_seq"]:
                pass  # had already fired
            else:
                res.violate("C19", "C19:cancel-did-not-fail-the-send", "send %d after cancel: fires=%d ok=%r err=%r" % (sid, wd.fires, wd.ok, wd.err))
        # dispatched before the cancel?  = some produce call issued before cancel carried it
        dispatched_before = any(c["seq"] < s["cancel_seq"] and any(_contains(lst, s["kvs"]) >= 0 for tp, lst in c["kvs"].items()
                                                                   if tp[0] == s["topic"]) for c in produce_calls)
        # (the producer looks partitions up only while dispatching a batch: a lookup issued after this send was queued and
        # before its cancel means a batch - maybe the one holding it - was already on its way)
        looking_up = any(s["seq"] < q < s["cancel_seq"] for q in state.get("lookup_seqs", ()))
        trig = sends.get(s.get("cancel_trigger")) if s.get("cancel_trigger") is not None else None
        if trig is not None and not any(c["seq"] < trig.get("fire_seq", 0) and any(_contains(lst, trig["kvs"]) >= 0 for tp, lst in c["kvs"].items() if tp[0] == trig["topic"])
                                        for c in produce_calls):
            # cancelled from the failure callback of a send that failed *while its batch was being put together* (no
            # partition for it): the batch - maybe with this send in it - was already on its way
            looking_up = True
        if not dispatched_before and not looking_up and not _dispatch_in_progress(produce_calls, s, sends, order):
            # never transmitted
            for t, cid, hdr, body, kvs in produce_written:
                for tp, lst in kvs.items():
                    if lst is not None and any(kv in lst for kv in s["kvs"] if kv[1] is not None):
                        res.violate("C19", "C19:cancelled-before-dispatch-yet-transmitted",
                                    "send %d was cancelled before dispatch but appears in a produce frame" % sid)
            res.probe("cancel_before_dispatch")
        else:
            res.probe("cancel_after_dispatch")
    if state.get("stop_seq") is not None:
        res.oblige("C19")
        bad = [sid for sid in state["outstanding_at_stop"]
               if not (sends[sid]["w"].fires == 1 and not sends[sid]["w"].ok and
                       isinstance(sends[sid]["w"].value, (AfkakCancelled, TwistedCancelled)))]
        if state["unfired_after_stop"]:
            res.violate("C19", "C19:stop-left-sends-unresolved", "sends %r not failed by stop()" % state["unfired_after_stop"][:5])
        elif bad:
            sid = bad[0]
            res.violate("C19", "C19:stop-failed-send-with-wrong-error:%s" % (sends[sid]["w"].err if not sends[sid]["w"].ok else "success"),
                        "send %d outstanding at stop() resolved with %r" % (sid, sends[sid]["w"].value))
        if [x for x in state["timers_after_stop"] if x == "producer.py:loop"]:
            res.violate("C19", "C19:time-limit-timer-left-after-stop", "%r" % state["timers_after_stop"])
        elif state["timers_after_stop"]:
            # the statement speaks of sends and transmissions, not of timers: recorded, not judged
            res.probe("note_retry_timer_left_after_stop")
        late = [(t, cid) for t, cid, hdr, body, kvs in produce_written if t > state["stop_t"]]
        if late:
            hist = "retry-scheduled" if state["inflight_at_stop"] else "idle"
            res.violate("C19", "C19:produce-frame-written-after-stop:%s" % ("batch-in-flight-at-stop" if state["inflight_at_stop"] else "no-batch-in-flight"),
                        "%d produce frames written after stop() (first at +%.3fs)" % (len(late), late[0][0] - state["stop_t"]))
        later_timers = [x for x in w.reactors["p0"].timer_log if x[0] > state["stop_seq"] and x[3].startswith("producer.py")]
        if later_timers:
            res.probe("note_timer_created_after_stop")
        if state["outstanding_at_stop"]:
            res.probe("stop_with_outstanding")
        if state["inflight_at_stop"]:
            res.probe("stop_with_batch_in_flight")
        if state["timers_at_stop"]:
            res.probe("stop_while_waiting_to_retry")

    # ---- C18: the partitioner objects driven directly with a seeded history of partition lists ----
    _check_partitioners_direct(res, sim.rng("partitioners-direct"), apart)

    # ---- C19 strict model + C18 round robin (fault-free warmed variant only) ----
    lookups = [c for c in obs.calls if c["name"] == "load_metadata_for_topics" and c["args"] and c["args"][0] in topics_parts]
    if clean and res.harness_error is None and not lookups:
        _check_batch_model(w, plan, res, sends, order, produce_calls, state)
    elif clean:
        res.probe("clean_variant_not_warm")

    # ---- C09 ----
    _check_c09(w, plan, res, sends, order, produce_calls, state, produce_written)

    # ---- C18 hashed ----
    if pc["partitioner"] == "hashed":
        for sid in order:
            s = sends[sid]
            first = None
            for c in produce_calls:
                for tp, lst in c["kvs"].items():
                    if tp[0] == s["topic"] and _contains(lst, s["kvs"]) >= 0:
                        first = (c, tp[1])
                        break
                if first:
                    break
            if first is None:
                continue
            res.oblige("C18")
            c, chosen = first
            versions = [v for q, v in tp_versions.get(s["topic"], []) if s["seq"] <= q <= c["seq"] + 1]
            before = [v for q, v in tp_versions.get(s["topic"], []) if q < s["seq"]]
            versions = before[-1:] + versions
            snap = c["tp_snapshot"].get(s["topic"])
            cand = set()
            for v in ([snap] if snap else []) + versions[-3:]:
                if v:
                    cand.add(java_partition(s["key"], list(v)))
            # a list may have been held only inside one event (two metadata answers in one delivery): every list a
            # metadata answer delivered to this client before the call carried for the topic is a candidate too
            latest_before_send = None
            for e in cl.reqlog:
                if e["key"] == kwire.METADATA and e.get("delivered_seq") is not None and e["delivered_seq"] <= c["seq"] and e.get("resp_body"):
                    for t in e["resp_body"]["topics"]:
                        if t["name"] == s["topic"] and t["partitions"]:
                            lst = sorted(p["id"] for p in t["partitions"])
                            if e["delivered_seq"] <= s["seq"]:
                                latest_before_send = lst  # the most recent one as the send was issued
                            else:
                                cand.add(java_partition(s["key"], lst))  # arrived between send and dispatch
            if latest_before_send is not None:
                cand.add(java_partition(s["key"], latest_before_send))
            if chosen not in cand:
                res.violate("C18", "C18:hashed-partition-differs-from-java", "send %d key %r -> partition %d, Java client: %r (lists %r)" % (
                    sid, s["key"], chosen, sorted(cand), versions[-2:]))
            try:
                txt = s["key"].decode("utf-8")
            except UnicodeDecodeError:
                txt = None
            if txt is not None and snap:
                import warnings
                with warnings.catch_warnings():
                    warnings.simplefilter("ignore")
                    hp = apart.HashedPartitioner(s["topic"], list(snap))
                    a = hp.partition(txt, list(snap))
                    b = hp.partition(s["key"], list(snap))
                if a != b:
                    res.violate("C18", "C18:text-and-bytes-forms-disagree", "key %r" % (s["key"],))
                res.probe("hashed_text_form_checked")

    # ---- C08 recovery (producer half) ----
    if cfg["variant"] == "recovery" or (plan["faults"] and all(f.get("act") == "retire_broker" for f in plan["faults"])):
        for sid in order:
            s = sends[sid]
            if not s["post"]:
                continue
            if s["topic"] not in topics_parts:
                continue
            if state.get("stop_seq") is not None and (not s["w"].fires or s["w"].seq >= state["stop_seq"]):
                continue  # the application stopped the producer while this send was outstanding
            # The producer has one attempt counter per batch cycle, and looking up a topic that does not exist spends
            # it (producer.py _next_partition).  A send whose life overlaps such a lookup may find the budget gone, so
            # "within the retry budget" promises nothing for it.
            w_end = s["w"].t if s["w"].fires else float("inf")
            overlapped = [o for o in sends.values() if o["topic"] not in topics_parts
                          and o["t"] <= w_end and (not o["w"].fires or o["w"].t >= s["t"])]
            if overlapped and not (s["w"].fires == 1 and s["w"].ok):
                res.probe("post_fault_send_shared_budget_with_unknown_topic")
                continue
            res.oblige("C08")
            if not (s["w"].fires == 1 and s["w"].ok):
                res.violate("C08", "C08:send-after-faults-ended-did-not-succeed:%s" % (s["w"].err or "unresolved"),
                            "send %d issued %.2fs after the last fault: %r" % (sid, s["t"] - t_base[0] - plan["t_faults_end"], s["w"].value))
            else:
                res.probe("post_fault_send_ok")
                only_retirement = bool(plan["faults"]) and all(f.get("act") == "retire_broker" for f in plan["faults"])
                if pc["acks"] == 0 and only_retirement:
                    # no acknowledgement, and the only leadership change was a broker leaving for good: its failed
                    # transmissions must have re-routed the producer, so what it reports sent now is stored
                    res.oblige("C08")
                    stored = set()
                    for t_ in cl.topics.values():
                        for p_ in t_.partitions.values():
                            for m_ in p_.messages():
                                stored.add((m_.key, m_.value))
                    lost = [kv for kv in s["kvs"] if kv[1] is not None and kv not in stored]
                    if lost:
                        res.violate("C08", "C08:send-after-a-broker-left-for-good-never-stored:acks0",
                                    "send %d (no acknowledgements) issued %.2fs after the broker had left reported success, %d of its messages are in no log" % (
                                        sid, s["t"] - t_base[0] - plan["t_faults_end"], len(lost)))
                    else:
                        res.probe("acks0_post_fault_send_stored_after_retirement")

    # ---- C04 ----
    w.check_wire("C04")
    for t, cid, hdr, body, kvs in produce_written:
        res.oblige("C04")
        if body["acks"] != pc["acks"] or body["timeout"] != pc["ack_timeout"]:
            res.violate("C04", "C04:produce-field-mismatch", "acks/timeout on the wire %r/%r configured %r/%r" % (
                body["acks"], body["timeout"], pc["acks"], pc["ack_timeout"]))
        # the frame's partitions must equal, message for message, what some produce call supplied
        for tp, lst in kvs.items():
            if lst is None:
                continue
            if not any(c["kvs"].get(tp) == lst for c in produce_calls):
                res.violate("C04", "C04:produce-messages-differ-from-call", "frame for %s/%d carries %d messages no call supplied in that form" % (
                    tp[0], tp[1], len(lst)))
    # version negotiation outcome
    _check_versions(w, plan, res, client)

    # ---- generic end-state notes ----
    for where, etype, msg, frames in sim.uncaught:
        if etype == "AlreadyCalledError":
            res.violate("C01", "C01:second-fire-attempt", "%s %r" % (where, frames))
    kinds = set(net.fault_counts)
    inflight_fault = any(k.startswith("rule_") or k in ("leader_move", "broker_down", "cut_conns") for k in kinds)
    for p in ("C01", "C09", "C19", "C18", "C04", "C08"):
        res.nontrivial[p] = bool(res.obligations.get(p)) and (inflight_fault or (clean and p in ("C19", "C18", "C09")))
    if clean:
        res.nontrivial["C19"] = bool(res.obligations.get("C19")) and len(order) > 1
    return w.finish()


def _dispatch_in_progress(produce_calls, s, sends, order):
    """Between dispatch (queue taken) and the produce call there can be a metadata wait; a cancel in that
    window is 'after dispatch' for the property (only detaches the caller).  Black-box approximation: a later
    produce call carries sends issued both before and after this one, or the send sits between two sends of
    one later call -- then it had been taken from the queue together with them."""
    sid = s["id"]
    idx = order.index(sid)
    for c in produce_calls:
        if c["seq"] < s["cancel_seq"]:
            continue
        ids = set()
        for tp, lst in c["kvs"].items():
            for o in order:
                so = sends[o]
                if so["topic"] == tp[0] and _contains(lst, so["kvs"]) >= 0:
                    ids.add(order.index(o))
        if ids and min(ids) < idx:
            # an older-or-equal batch was still being dispatched after the cancel: the cancelled send may have been in it
            return True
        break
    return False


def _check_partitioners_direct(res, rng, apart):
    """A changed list restarts a fair cycle over the new list - whether the caller hands over a new list object each
    time (as KafkaClient's metadata merge does) or keeps one list and changes it in place."""
    saved = apart.RoundRobinPartitioner.randomStart
    try:
        for random_start in (False, True):
            apart.RoundRobinPartitioner.randomStart = random_start
            lst = sorted(rng.sample(range(0, 12), rng.randint(1, 5)))
            same_object = rng.random() < 0.5
            p = apart.RoundRobinPartitioner("direct", lst if same_object else list(lst))
            for _phase in range(rng.randint(2, 4)):
                k = rng.randint(1, 3)
                picks = [p.partition(None, lst if same_object else list(lst)) for _ in range(k * len(lst))]
                res.oblige("C18")
                if any(x not in lst for x in picks):
                    res.violate("C18", "C18:round-robin-out-of-range:direct", "selected %r, supplied list %r (%s)" % (
                        [x for x in picks if x not in lst][:3], lst, "same list object changed in place" if same_object else "new list objects"))
                    break
                if sorted(picks) != sorted(lst * k):
                    res.violate("C18", "C18:round-robin-window-unfair:direct", "%d selections over %r: %r (%s)" % (
                        len(picks), lst, picks, "same list object changed in place" if same_object else "new list objects"))
                    break
                if not random_start and _phase == 0 and picks[:len(lst)] != lst:
                    res.violate("C18", "C18:round-robin-fixed-start:direct", "first cycle %r over %r" % (picks[:len(lst)], lst))
                    break
                # the topic gains or loses a partition
                if len(lst) > 1 and rng.random() < 0.4:
                    del lst[rng.randrange(len(lst))]
                else:
                    lst.append(lst[-1] + rng.randint(1, 3))
                if not same_object:
                    lst = list(lst)
    finally:
        apart.RoundRobinPartitioner.randomStart = saved


def _check_batch_model(w, plan, res, sends, order, produce_calls, state):
    """Lock-step reference model of the batching queue over the recorded log (fault-free warmed variant)."""
    pc = plan["cfg"]["producer"]
    sim = w.sim
    every_n = pc["every_n"] if pc["batch_send"] else 1
    every_b = pc["every_b"] if pc["batch_send"] else 1
    queue = []
    cnt = [0, 0]
    inflight = [False]
    expect = [None]
    call_by_seq = {c["seq"]: c for c in produce_calls}
    done_by_seq = {c["seq_done"]: c for c in produce_calls if c["done"]}
    by_sendseq = {s["seq"]: s for s in sends.values()}
    by_cancelseq = {s["cancel_seq"]: s for s in sends.values() if s["cancel_seq"] is not None}

    def met():
        return bool((every_n and every_n <= cnt[0]) or (every_b and every_b <= cnt[1]))

    def take(why):
        if queue and not inflight[0]:
            expect[0] = (frozenset(x["id"] for x in queue), why)
            del queue[:]
            cnt[0] = cnt[1] = 0

    def pending_check(at):
        if expect[0] is not None:
            res.violate("C19", "C19:dispatch-missing:%s" % expect[0][1],
                        "model dispatches sends %r (%s) but no produce call followed (log #%d)" % (sorted(expect[0][0]), expect[0][1], at))
            expect[0] = None

    ids_of_call = {}
    for c in produce_calls:
        ids = set()
        for tp, lst in c["kvs"].items():
            for sid in order:
                s = sends[sid]
                if s["topic"] == tp[0] and _contains(lst, s["kvs"]) >= 0:
                    ids.add(sid)
        ids_of_call[c["seq"]] = frozenset(ids)

    stop_seq = state.get("stop_seq")
    resolved = [False]  # a batch has just resolved: its results are being delivered, the next dispatch decision follows them

    def settle():
        if resolved[0]:
            resolved[0] = False
            if met():
                take("threshold-met-when-batch-resolved")

    for i, e in enumerate(sim.log):
        if stop_seq is not None and i >= stop_seq:
            break
        kind = e[2]
        if resolved[0]:
            if kind == "fire":
                continue
            if kind == "op" and e[3] == "cancel" and i in by_cancelseq:
                # a result callback cancelled a queued send: that happens before the producer looks at its queue again
                s = by_cancelseq[i]
                if s in queue:
                    queue.remove(s)
                    cnt[0] -= s["count"]
                    cnt[1] -= s["bytes"]
                continue
            if kind == "op" and e[3] == "send" and i in by_sendseq and by_sendseq[i]["id"] >= 500:
                # a result callback issued a send: it joins the queue while the resolved batch still counts as in progress
                s = by_sendseq[i]
                if s["topic"] not in [t["name"] for t in plan["cfg"]["topics"]]:
                    return
                queue.append(s)
                cnt[0] += s["count"]
                cnt[1] += s["bytes"]
                continue
            settle()
        if kind == "op" and e[3] == "send" and i in by_sendseq:
            pending_check(i)
            s = by_sendseq[i]
            if s["topic"] not in [t["name"] for t in plan["cfg"]["topics"]]:
                return  # unknown topic needs a metadata round trip: outside the warmed model
            queue.append(s)
            cnt[0] += s["count"]
            cnt[1] += s["bytes"]
            if met():
                take("threshold-met-on-send")
        elif kind == "op" and e[3] == "cancel" and i in by_cancelseq:
            pending_check(i)
            s = by_cancelseq[i]
            if s in queue:
                queue.remove(s)
                cnt[0] -= s["count"]
                cnt[1] -= s["bytes"]
        elif kind == "tick" and e[4] == "producer.py:loop":
            pending_check(i)
            take("time-limit-tick")
        elif kind == "api" and e[4] == "send_produce_request":
            c = call_by_seq.get(i)
            if c is None:
                continue
            got = ids_of_call[c["seq"]]
            res.oblige("C19")
            if expect[0] is None:
                res.violate("C19", "C19:dispatch-not-enabled", "produce call with sends %r at %.6f although no threshold, tick or completion enabled it" % (
                    sorted(got), e[1]))
            elif got != expect[0][0]:
                res.violate("C19", "C19:dispatch-contents", "produce call carries sends %r, model %r (%s)" % (sorted(got), sorted(expect[0][0]), expect[0][1]))
            expect[0] = None
            inflight[0] = True
        elif kind == "api_done" and e[4] == "send_produce_request":
            c = done_by_seq.get(i + 1) or done_by_seq.get(i)
            pending_check(i)
            inflight[0] = False
            resolved[0] = True
    settle()
    if stop_seq is None:
        pending_check(len(sim.log))
    # C18 round robin fairness: selections per topic in issue order under an unchanged partition list
    if pc["partitioner"] in ("rr", "rr_random"):
        per_topic = {}
        for c in produce_calls:
            for sid in [x for x in order if x in ids_of_call[c["seq"]]]:
                s = sends[sid]
                for tp, lst in c["kvs"].items():
                    if tp[0] == s["topic"] and _contains(lst, s["kvs"]) >= 0:
                        per_topic.setdefault(s["topic"], []).append((sid, tp[1], c["tp_snapshot"].get(s["topic"])))
        cancelled_any = any(s["cancel_seq"] is not None for s in sends.values())
        for topic, sel in per_topic.items():
            parts = sel[0][2]
            if not parts or any(x[2] != parts for x in sel) or cancelled_any:
                continue
            n = len(parts)
            chosen = [x[1] for x in sel]
            res.oblige("C18", len(chosen))
            if any(c not in parts for c in chosen):
                res.violate("C18", "C18:round-robin-out-of-range", "%s: %r not in %r" % (topic, chosen, parts))
                continue
            for start in range(0, len(chosen) - n + 1):
                win = chosen[start:start + n]
                if sorted(win) != sorted(parts):
                    res.violate("C18", "C18:round-robin-window-unfair", "%s: window %r over partitions %r" % (topic, win, parts))
                    break
            if pc["partitioner"] == "rr" and chosen and chosen[0] != parts[0]:
                res.violate("C18", "C18:round-robin-fixed-start", "%s: first selection %r, list %r" % (topic, chosen[0], parts))


def _check_c09(w, plan, res, sends, order, produce_calls, state, produce_written):
    pc = plan["cfg"]["producer"]
    sim, cl = w.sim, w.cluster
    # (a) never two produce calls outstanding
    open_ = 0
    events = []
    for c in produce_calls:
        events.append((c["seq"], 1))
        if c["done"]:
            events.append((c["seq_done"], -1))
    events.sort()
    for _q, d in events:
        open_ += d
        if open_ > 1:
            res.violate("C09", "C09:two-produce-calls-outstanding", "a batch was dispatched while the previous one was unresolved")
            break
    # (c) each message appears in exactly one payload per attempt
    for c in produce_calls:
        res.oblige("C09")
        seen = {}
        for tp, lst in c["kvs"].items():
            for kv in lst:
                if kv[1] is None:
                    continue
                if kv in seen:
                    res.violate("C09", "C09:message-in-two-payloads-of-one-attempt", "%r in %r and %r" % (kv[1][:12], seen[kv], tp))
                seen[kv] = tp
    # (b) per-partition order of first occurrences follows send order
    rank = {}
    for r_, sid in enumerate(order):
        for j, kv in enumerate(sends[sid]["kvs"]):
            if kv[1] is not None:
                rank[kv] = (r_, j)
    for t in cl.topics.values():
        for p in t.partitions.values():
            last = None
            seen = set()
            for m in p.messages():
                kv = (m.key, m.value)
                if kv in seen or kv not in rank:
                    continue
                seen.add(kv)
                res.oblige("C09")
                if last is not None and rank[kv] < last:
                    res.violate("C09", "C09:partition-log-out-of-send-order", "%s/%d: %r stored after a later send's message" % (t.name, p.pid, kv[1][:12]))
                    break
                last = rank[kv]
    # (d) batches: once a call carries a message that was not in the current batch, no later call carries older ones;
    #     attempts per batch <= limit; acknowledged payloads are never re-sent
    batches = []
    cur = None
    for c in produce_calls:
        kvset = set(kv for lst in c["kvs"].values() for kv in lst)
        if cur is None or not kvset <= cur["all"]:
            if cur is not None and kvset & cur["all"]:
                res.violate("C09", "C09:batches-interleaved", "a call mixes messages of the previous batch with new ones")
            cur = {"all": set(kvset), "calls": [c]}
            batches.append(cur)
        else:
            cur["calls"].append(c)
    older = set()
    for b in batches:
        for c in b["calls"]:
            kvset = set(kv for lst in c["kvs"].values() for kv in lst)
            if kvset & older:
                res.violate("C09", "C09:older-batch-message-after-newer-batch", "")
        older |= b["all"]
        res.oblige("C09")
        if len(b["calls"]) > pc["max_attempts"]:
            res.violate("C09", "C09:attempt-limit-exceeded", "%d produce attempts for one batch, limit %d" % (len(b["calls"]), pc["max_attempts"]))
        if len(b["calls"]) > 1:
            res.probe("batch_retried")
    # a send whose caller has been told "success" (an acknowledgement, or - with acks=0 - the hand-over to a connection)
    # is finished: no later produce call may carry its messages again
    for sid in order:
        s = sends[sid]
        wd = s["w"]
        if not (wd.fires == 1 and wd.ok):
            continue
        mine = set(kv for kv in s["kvs"] if kv[1] is not None)
        if not mine:
            continue
        res.oblige("C09")
        for c in produce_calls:
            if c["seq"] <= wd.seq:
                continue
            if any(kv in mine for lst in c["kvs"].values() if lst is not None for kv in lst):
                res.violate("C09", "C09:acknowledged-payload-resent:after-caller-was-told-success:acks=%s" % ("0" if pc["acks"] == 0 else "n"),
                            "send %d succeeded at %.6f; the produce call issued at %.6f carries its messages again" % (sid, wd.t, c["t"]))
                break
    # acknowledged (error 0 delivered to the client in time) partitions must not be re-sent by a later attempt
    timeout = plan["cfg"]["client"]["timeout_ms"] / 1000.0
    wrote_at = {}
    for c_ in w.net.conns:
        for frame, t in client_frames(c_):
            if len(frame) >= 8:
                import struct as _st
                wrote_at[(c_.cid, _st.unpack(">i", frame[4:8])[0])] = t
    for e in cl.reqlog:
        if e["key"] != kwire.PRODUCE or e.get("resp_body") is None or e.get("delivered_t") is None:
            continue
        if e.get("act") == "garbage":
            continue
        if state.get("stop_t") is not None and e["delivered_t"] >= state["stop_t"]:
            continue
        t_w = wrote_at.get((e["cid"], e["corr"]))
        if t_w is None:
            continue
        # the call that issued this request: the last produce call begun no later than the write
        call = None
        for c in produce_calls:
            if c["t"] <= t_w + 1e-12:
                call = c
        if call is None or e["delivered_t"] >= call["t"] + timeout - 1e-9:
            continue  # the reply may have come after the client-side deadline: the client was told "timed out"
        if call["done"] and call["seq_done"] < e["delivered_seq"]:
            continue  # the call was already over (cancelled) when the reply arrived
        parsed = e.get("parsed", {})
        for t in e["resp_body"]["topics"]:
            for p in t["partitions"]:
                if p["error"] != 0:
                    continue
                tp = (t["name"], p["partition"])
                lv = parsed.get(tp)
                if not lv:
                    continue
                kvs = [(m["key"], m["value"]) for m in lv[1]]
                res.oblige("C09")
                for c in produce_calls:
                    if c["seq"] <= e["delivered_seq"]:
                        continue
                    hit = False
                    for tp2, lst in c["kvs"].items():
                        if any(kv in lst for kv in kvs if kv[1] is not None):
                            hit = True
                    if hit:
                        code = [pp["error"] for tt in e["resp_body"]["topics"] for pp in tt["partitions"] if pp["error"]]
                        how = _call_end(call)
                        prev = produce_calls[c["n_prod"] - 1] if c.get("n_prod") else None
                        via = ""
                        if prev is not None and prev is not call:
                            via = ":then-" + _call_end(prev)
                        res.violate("C09", "C09:acknowledged-payload-resent:after-%s%s" % (how, via),
                                    "%s/%d acknowledged at %.4f (errors elsewhere in that response: %r) yet re-sent at %.4f" % (
                                        tp[0], tp[1], e["delivered_t"], code, c["t"]))
                        break
    # (f) retry delays of timers created by producer.py
    tl = [x for x in w.reactors["p0"].timer_log if x[3] == "producer.py"]
    interval = pc["retry_interval"]
    prev = None
    for q, now, delay, _cr, _fn in tl:
        res.oblige("C09")
        if prev is None:
            ok = close(delay, interval)
        else:
            ok = close(delay, prev * FACTOR) or close(delay, interval)
        if not ok:
            res.violate("C09", "C09:retry-delay-not-geometric", "delay %.6f after %.6f (interval %.4f)" % (delay, prev or 0.0, interval))
            break
        if prev is not None and close(delay, prev * FACTOR) and not close(delay, interval):
            # not reset: then the batch must not have resolved in between
            pq = prev_q
            pending_before = [sid for sid in order if sends[sid]["seq"] < pq]
            if pending_before and all(sends[sid]["w"].fires and sends[sid]["w"].seq < q for sid in pending_before) and \
                    not any(c["seq"] < q and (not c["done"] or c["seq_done"] > q) for c in produce_calls):
                pass  # cannot tell batch boundaries black-box reliably here; covered by the first-delay rule below
        prev, prev_q = delay, q
    # first timer after a batch whose every send had resolved must be the plain interval again
    for b_i in range(1, len(batches)):
        first_call = batches[b_i]["calls"][0]
        prev_last = batches[b_i - 1]["calls"][-1]
        if not prev_last["done"]:
            continue
        after = [x for x in tl if x[0] > prev_last["seq_done"]]
        before_next = [x for x in after if x[0] < first_call["seq"]]
        # timers between the batches belong to the new batch's metadata lookups; the first must be the interval
        if before_next and not close(before_next[0][2], interval):
            res.violate("C09", "C09:retry-delay-not-reset-after-batch", "first delay of the next batch %.6f, interval %.4f" % (before_next[0][2], interval))


def _call_end(call):
    from afkak.common import BrokerResponseError, FailedPayloadsError, KafkaError
    if not call["done"]:
        return "call-unfinished"
    if call["ok"]:
        return "call-returned-responses"
    v = call["result"].value
    if isinstance(v, FailedPayloadsError):
        return "FailedPayloadsError"
    if isinstance(v, BrokerResponseError):
        return "call-raised-broker-error-code"
    if isinstance(v, KafkaError):
        return "total-failure-%s" % type(v).__name__
    return type(v).__name__


def _cls(code):
    if code in (3, 6):
        return "passthrough"
    return "other"


def _check_versions(w, plan, res, client):
    """After discovery every Produce frame carries a version the broker advertised and the client implements;
    after failed discovery frames are v0 with format-0 messages."""
    cl = w.cluster
    cfg = plan["cfg"]
    if not cfg["client"]["discover"]:
        for e in cl.reqlog:
            if e["key"] in (0, 1) and e["version"] != 0:
                res.violate("C04", "C04:version-nonzero-without-discovery", "api %d v%d" % (e["key"], e["version"]))
        return
    adv = None
    adv_seq = None
    for e in cl.reqlog:
        if e["key"] == kwire.API_VERSIONS and e.get("advertised") is not None and e.get("delivered_seq") is not None and \
                (adv is None or e["delivered_seq"] < adv_seq):
            # (the answer that reached the client first - overlapping discoveries are answered on several connections)
            adv = {k: (a, b) for k, a, b in e["advertised"]}
            adv_seq = e["delivered_seq"]
    for e in cl.reqlog:
        if e["key"] not in (0, 1) or e.get("body") is None:
            continue
        res.oblige("C04")
        if e["version"] != 0 and (adv is None or e["logseq"] < adv_seq):
            # no error-free version table had reached the client when this request was written (discovery unanswered,
            # answered with an error code - with or without entries - or still in progress): version 0 is the fallback
            res.violate("C04", "C04:version-nonzero-without-a-successful-discovery", "api %d v%d written before any error-free ApiVersions answer had arrived" % (
                e["key"], e["version"]))
        if adv is not None and e["logseq"] > adv_seq:
            lo, hi = adv.get(e["key"], (0, 0))
            if not (lo <= e["version"] <= hi) or e["version"] > 2:
                res.violate("C04", "C04:version-outside-advertised-range", "api %d v%d, advertised %d..%d" % (e["key"], e["version"], lo, hi))
        if e["key"] == 0:
            for tp, (parsed, lv) in e.get("parsed", {}).items():
                magics = set(x["magic"] for x in parsed)
                if e["version"] < 2 and magics - {0}:
                    pass  # reported by check_wire as message-format-1-in-produce-v0
