"""Simulation core: one heap, one virtual clock, named PRNG streams, per-process reactors.

Everything that happens in a run is an entry of ``Sim.heap``.  Entries are totally ordered by
``(time, tiebreak, seq)``; ``tiebreak`` is 0 unless the plan enables ``shuffle_ties`` in which case it
is drawn from the ``sched`` stream, so that same-instant events are permuted by the seed.
"""
import hashlib
import heapq
import random
import sys

from twisted.internet.base import DelayedCall
from twisted.internet.interfaces import IReactorTime
from twisted.internet.task import LoopingCall
from zope.interface import implementer


class HarnessError(Exception):
    """The simulator itself (not afkak) misbehaved; never a verdict about afkak."""


def derive_seed(seed, label):
    h = hashlib.sha256(("%d/%s" % (seed, label)).encode()).digest()
    return int.from_bytes(h[:8], "big")


class Sim(object):
    def __init__(self, seed, shuffle_ties=False, max_events=200000):
        self.seed = seed
        self.now = 0.0
        self.seq = 0
        self.heap = []
        self.events_run = 0
        self.max_events = max_events
        self.shuffle_ties = shuffle_ties
        self._rngs = {}
        self.log = []  # the event log: tuples of plain data only
        self.after_event = []  # callables run after every event (online invariants)
        self.before_event = []  # callables run once the clock has moved, before the event's thunk
        self.uncaught = []  # exceptions that escaped SUT callbacks
        self.reactors = {}
        self.trace_order = hashlib.sha256()  # digest of (kind, entity) order = interleaving id
        self.overrun = False
        self.harness_errors = []
        self.last_event_t = 0.0
        self.livelock = False  # too many events inside one virtual instant: the system spins without time passing
        self._same_t = 0
        self.max_same_instant = 4000

    # -- randomness -------------------------------------------------------
    def rng(self, label):
        r = self._rngs.get(label)
        if r is None:
            r = self._rngs[label] = random.Random(derive_seed(self.seed, label))
        return r

    # -- scheduling -------------------------------------------------------
    def at(self, t, fn, *args):
        if t < self.now:
            t = self.now
        self.seq += 1
        tb = self.rng("sched").random() if self.shuffle_ties else 0.0
        heapq.heappush(self.heap, (t, tb, self.seq, fn, args))
        return self.seq

    def after(self, delay, fn, *args):
        return self.at(self.now + delay, fn, *args)

    def record(self, kind, *fields):
        self.log.append((len(self.log), round(self.now, 9), kind) + fields)

    def mark(self, kind, entity=""):
        """Contribute to the interleaving digest (order of (kind, entity) pairs only)."""
        self.trace_order.update(("%s:%s;" % (kind, entity)).encode())

    def step(self):
        t, _tb, _seq, fn, args = heapq.heappop(self.heap)
        if t > self.now:
            self.now = t
            self._same_t = 0
        else:
            self._same_t += 1
            if self._same_t > self.max_same_instant:
                self.livelock = True
        self.events_run += 1
        self.last_event_t = self.now
        for h in self.before_event:
            h()
        fn(*args)
        for inv in self.after_event:
            inv()

    def run(self, until=None, stop=None):
        while self.heap:
            if until is not None and self.heap[0][0] > until:
                self.now = max(self.now, until)
                return
            if self.events_run >= self.max_events:
                self.overrun = True
                return
            if self.livelock:
                return
            self.step()
            if stop is not None and stop():
                return
        if until is not None:
            self.now = max(self.now, until)

    def digest(self):
        h = hashlib.sha256()
        for e in self.log:
            h.update(repr(e).encode())
            h.update(b"\n")
        return h.hexdigest()

    def sut_exception(self, where):
        """Record an exception that escaped afkak/Twisted code called by the simulator."""
        et, ev, tb = sys.exc_info()
        frames = []
        while tb is not None:
            frames.append("%s:%d" % (tb.tb_frame.f_code.co_filename.rsplit("/", 1)[-1], tb.tb_lineno))
            tb = tb.tb_next
        self.uncaught.append((where, et.__name__, str(ev)[:200], frames[-4:]))
        self.record("uncaught", where, et.__name__, str(ev)[:120])


def _creator_file(depth_limit=12):
    """First afkak source file on the stack of the callLater caller (read-only observation)."""
    f = sys._getframe(2)
    first = None
    for _ in range(depth_limit):
        if f is None:
            break
        fn = f.f_code.co_filename
        if first is None:
            first = fn
        if "/afkak/" in fn and "/test/" not in fn:
            return fn.rsplit("/", 1)[-1]
        f = f.f_back
    return (first or "?").rsplit("/", 1)[-1]


def _owner_of(func):
    """Best-effort owner module for a delayed call's function (used when no afkak frame is on the stack)."""
    if isinstance(func, LoopingCall):
        func = func.f
    self_ = getattr(func, "__self__", None)
    if self_ is not None:
        mod = type(self_).__module__
    else:
        mod = getattr(func, "__module__", "") or ""
    if mod.startswith("afkak"):
        return mod.split(".")[-1] + ".py"
    return None


@implementer(IReactorTime)
class ProcReactor(object):
    """Virtual-time IReactorTime for one simulated process."""

    def __init__(self, sim, pid, lateness=None):
        self.sim = sim
        self.pid = pid
        self.calls = []  # pending DelayedCall objects, in creation order (deterministic)
        self.dead = False
        self.lateness = lateness  # None or (rng, max_late_seconds)
        self.timer_log = []  # (seq, now, delay, creator)
        sim.reactors[pid] = self
        self._tok = 0

    def seconds(self):
        return self.sim.now

    def callLater(self, delay, f, *args, **kw):
        if delay < 0:
            raise HarnessError("negative delay %r" % (delay,))
        dc = DelayedCall(self.sim.now + delay, f, args, kw, self._cancelled, self._reset, seconds=self.seconds)
        if isinstance(f, LoopingCall):
            creator = (_owner_of(f) or "task.py") + ":loop"
        else:
            creator = _creator_file()
            if not creator.endswith(".py") or creator in ("task.py", "defer.py", "core.py", "base.py"):
                creator = _owner_of(f) or creator
        dc.sim_creator = creator
        dc.sim_delay = delay
        fname = getattr(f, "__name__", None) or type(f).__name__
        dc.sim_fname = fname
        self.calls.append(dc)
        self.timer_log.append((len(self.sim.log), self.sim.now, delay, creator, fname))
        self.sim.record("timer", self.pid, creator, round(delay, 9))
        self._push(dc)
        return dc

    def _push(self, dc):
        self._tok += 1
        dc.sim_tok = self._tok
        late = 0.0
        if self.lateness is not None:
            rng, mx = self.lateness
            if rng.random() < 0.3:
                late = rng.random() * mx
        self.sim.at(dc.time + late, self._fire, dc, dc.sim_tok)

    def _fire(self, dc, tok):
        if self.dead or dc.sim_tok != tok or dc.cancelled or dc.called:
            return
        if dc.delayed_time > 0:
            dc.activate_delay()
            self._push(dc)
            return
        self.calls.remove(dc)
        dc.called = 1
        self.sim.mark("timer", "%s/%s" % (self.pid, dc.sim_creator))
        if dc.sim_creator.endswith(":loop"):
            self.sim.record("tick", self.pid, dc.sim_creator)
        try:
            dc.func(*dc.args, **dc.kw)
        except HarnessError:
            raise
        except Exception:
            self.sim.sut_exception("timer:%s" % dc.sim_creator)

    def _cancelled(self, dc):
        try:
            self.calls.remove(dc)
        except ValueError:
            pass

    def _reset(self, dc):
        self._push(dc)

    def getDelayedCalls(self):
        return list(self.calls)

    # convenience for oracles
    def pending(self, creator=None):
        return [dc for dc in self.calls if creator is None or dc.sim_creator == creator]

    def kill(self):
        self.dead = True
        self.calls = []
