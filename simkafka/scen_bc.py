"""Family BC: one real _KafkaBrokerClient (+ KafkaProtocol) or KafkaBootstrapProtocol against a scripted wire peer.

Decides C06 (exactly-once completion with the frame bearing the request's own id) and C10 (resend once, in
order, reconnect/backoff discipline, close) by lock-step refinement against ``RefBrokerClient``.
"""
import struct
from collections import OrderedDict

from . import use_afkak_src
from . import logcap
from .core import HarnessError, ProcReactor, Sim
from .net import SEG_POLICIES, SimNet
from .observe import RunResult, frames_of, watch

FAMILY = "bc"
PROPS = ("C06", "C10")
SHRINK_LISTS = ("cuts", "connects", "peer", "ops")


def simplify(plan):
    """Candidate simplifications of the configuration, tried one at a time by the shrinker."""
    cfg = plan["cfg"]
    for key, val in (("shuffle_ties", False), ("seg_c2s", "coalesce"), ("seg_s2c", "coalesce"), ("lat", [0.0, 0.0]),
                     ("retry", [0.01])):
        if cfg.get(key) != val:
            c = dict(plan)
            c["cfg"] = dict(cfg)
            c["cfg"][key] = val
            yield c
    for i, o in enumerate(plan["ops"]):
        if o.get("size", 0) > 0:
            c = dict(plan)
            c["ops"] = [dict(x) for x in plan["ops"]]
            c["ops"][i]["size"] = 0
            yield c


# --------------------------------------------------------------------------------------------
# plan generation
# --------------------------------------------------------------------------------------------

def gen_plan(seed, tier="quick", variant=None):
    import random

    rng = random.Random(seed * 7919 + 17)
    if variant is None:
        variant = "bs" if rng.random() < 0.15 else "bc"
    thorough = tier == "thorough"
    instant = rng.random() < 0.15
    lat = [0.0, 0.0] if instant else [0.0005, rng.choice([0.001, 0.004, 0.02])]
    cfg = {
        "variant": variant,
        "lat": lat,
        "seg_c2s": rng.choice(SEG_POLICIES),
        "seg_s2c": rng.choice(SEG_POLICIES),
        "shuffle_ties": rng.random() < 0.5,
        "retry": [round(rng.choice([0.0, 0.01, 0.05, 0.2, 0.7]) + rng.random() * 0.01, 4) for _ in range(rng.randint(1, 4))],
        "connect_timeout": rng.choice([0.3, 1.0, 30.0]),
    }
    nreq = rng.randint(1, 16 if thorough else 10)
    horizon = rng.choice([0.02, 0.1, 0.4])
    ops = []
    ids = []
    next_id = rng.choice([1, 1, 100, 2 ** 31 - 5])
    for i in range(nreq):
        rid = next_id
        next_id = next_id + rng.randint(1, 3)
        if next_id > 2 ** 31 - 1:
            next_id = 1
        ids.append(rid)
        ops.append({"t": round(rng.random() * horizon, 6), "op": "req", "id": rid,
                    "expect": rng.random() < 0.85, "size": rng.choice([0, 1, 7, 40, 300])})
    if variant == "bc":
        for _ in range(rng.choice([0, 0, 1, 2, 4])):
            ops.append({"t": round(rng.random() * horizon * 1.3, 6), "op": "cancel", "id": rng.choice(ids)})
            if rng.random() < 0.3:
                # the id of a cancelled request is not free while its reply may still arrive
                ops.append({"t": round(ops[-1]["t"] + rng.choice([0.0, 0.0005, 0.005]), 6), "op": "dup", "id": ops[-1]["id"]})
        for _ in range(rng.choice([0, 0, 0, 1, 2])):
            ops.append({"t": round(rng.random() * horizon * 1.3, 6), "op": "disconnect"})
        if rng.random() < 0.25:
            ops.append({"t": round(rng.random() * horizon, 6), "op": "dup", "id": rng.choice(ids)})
        if rng.random() < 0.2:
            ops.append({"t": round(rng.random() * horizon, 6), "op": "meta", "addr": rng.choice([0, 1])})
        if rng.random() < 0.4:
            ops.append({"t": round(rng.random() * horizon * 1.5, 6), "op": "close"})
        # application reacting inside a completion callback
        expecting = [o["id"] for o in ops if o["op"] == "req"]
        for _ in range(rng.choice([0, 0, 1, 2]) if expecting else 0):
            # (a request that expects no reply fires from inside the write - at connect time from inside the flush of
            # the queued requests: since the repair F29 the flush skips what such a callback cancelled or closed)
            trig = rng.choice(expecting)
            kind = rng.choice(["cancel", "req", "disconnect", "close"])
            o = {"after": trig, "op": kind}
            if kind == "cancel":
                o["id"] = rng.choice(ids)
            elif kind == "req":
                o["id"] = next_id
                next_id = next_id + 1 if next_id < 2 ** 31 - 1 else 1
                o["expect"] = rng.random() < 0.8
                o["size"] = 3
            ops.append(o)
    else:
        for _ in range(rng.choice([0, 0, 1, 2])):
            ops.append({"t": round(rng.random() * horizon * 1.3, 6), "op": "cancel", "id": rng.choice(ids)})
    # peer rules by global frame arrival index
    peer = []
    nrules = rng.choice([0, 1, 2, 4, 8])
    for _ in range(nrules):
        k = rng.randint(0, nreq + 3)
        kind = rng.choice(["late", "dup", "unknown", "other", "silent", "silent", "oversize", "close", "reset", "swap", "runt"])
        acts = []
        if kind == "late":
            acts = [{"a": "reply", "delay": round(rng.random() * horizon * 2, 6)}]
        elif kind == "dup":
            acts = [{"a": "reply", "delay": round(rng.random() * 0.01, 6)}, {"a": "reply", "delay": round(rng.random() * 0.02, 6)}]
        elif kind == "unknown":
            acts = [{"a": "reply", "id": rng.choice([0, -1, 999999, 2 ** 31 - 1]), "delay": 0.0},
                    {"a": "reply", "delay": round(rng.random() * 0.01, 6)}]
        elif kind == "other":
            # a frame bearing the id of some *other* request (maybe live, maybe cancelled, maybe done)
            acts = [{"a": "reply", "id": rng.choice(ids), "delay": round(rng.random() * 0.01, 6)}]
            if rng.random() < 0.5:
                acts.append({"a": "reply", "delay": round(rng.random() * 0.02, 6)})
        elif kind == "runt":
            # 0-3 bytes: no room for a correlation id.  Read carelessly they are the id of some request.
            acts = [{"a": "runt", "n": rng.choice([0, 1, 2, 3, 3]), "id": rng.choice(ids), "delay": round(rng.random() * 0.005, 6)}]
            if rng.random() < 0.5:
                acts.append({"a": "reply", "delay": round(rng.random() * 0.02, 6)})
        elif kind == "silent":
            acts = []
        elif kind == "oversize":
            acts = [{"a": "oversize", "len": rng.choice([2 ** 31, 2 ** 32 - 1, 2 ** 31 + 12345]), "delay": round(rng.random() * 0.005, 6)}]
        elif kind == "close":
            acts = [{"a": "close", "delay": round(rng.random() * 0.01, 6)}]
            if rng.random() < 0.5:
                acts.insert(0, {"a": "reply", "delay": 0.0})
        elif kind == "reset":
            acts = [{"a": "reset", "delay": round(rng.random() * 0.01, 6)}]
        elif kind == "swap":
            acts = [{"a": "reply", "delay": round(0.01 + rng.random() * 0.02, 6)}]
        peer.append({"nth": k, "acts": acts})
    connects = []
    for k in range(rng.choice([0, 0, 1, 2, 5])):
        connects.append({"nth": rng.randint(0, 6), "kind": rng.choice(["refused", "refused", "blackhole", "dns", "ignore_cancel", "sync_fail"])})
    cuts = []
    for _ in range(rng.choice([0, 0, 1, 1, 2, 3])):
        cuts.append({"conn": rng.randint(0, 3), "dir": rng.choice(["s2c", "s2c", "c2s"]),
                     "after": rng.randint(0, 120), "clean": rng.random() < 0.3})
    plan = {"family": FAMILY, "seed": seed, "tier": tier, "cfg": cfg, "ops": ops, "peer": peer,
            "connects": connects, "cuts": cuts, "t_end": round(horizon * 2 + 0.05, 6)}
    return plan


def plans_for(seed, tier):
    plan = gen_plan(seed, tier)
    out = [plan]
    if tier == "thorough" and seed % 4 == 0 and plan["cfg"]["variant"] == "bc":
        # fault enumeration inside a seeded history: sweep the cut over every byte boundary of conn 0
        base = dict(plan)
        base["cuts"] = []
        total = sum(17 + o.get("size", 0) for o in plan["ops"] if o["op"] == "req")
        for direction in ("s2c", "c2s"):
            for pos in range(0, min(total, 160)):
                p = dict(base)
                p["cuts"] = [{"conn": 0, "dir": direction, "after": pos, "clean": False}]
                p["sweep"] = [direction, pos]
                out.append(p)
    return out


# --------------------------------------------------------------------------------------------
# reference model
# --------------------------------------------------------------------------------------------

class RefBrokerClient(object):
    """Executable reference model of the request table of one broker connection owner.

    Bulk operations of the implementation (send everything queued on connect, fail everything on close,
    process every frame of a delivered chunk) run application callbacks in between their elements, so
    the model keeps them as a queue of micro-steps and is advanced lazily: whenever the real client
    completes request X and the model has not yet, the model is advanced until it completes X.
    """

    def __init__(self, policy, addr):
        self.table = OrderedDict()  # id -> [sent, cancelled, expect, frame]
        self.policy = policy
        self.addr = addr
        self.connected = None
        self.disconnecting = False
        self.connecting = False
        self.closing = False
        self.close_fired = False
        self.failures = 0
        self.completions = {}  # id -> (kind, payload)
        self.double = []
        self.writes = {}  # conn -> bytearray
        self.attempts = []  # (t, host, port) that have certainly happened
        self.pending_attempt = None  # (t, host, port) scheduled after backoff
        self.steps = []  # micro-steps: ("frame", cid, bytes) ("oversize", cid) ("send", rid) ("closepop", rid)
        self.dup_errors = 0

    def _complete(self, rid, kind, payload=None):
        if rid in self.completions:
            self.double.append(rid)
        else:
            self.completions[rid] = (kind, payload)

    def _write(self, entry, rid):
        entry[0] = True
        # (bytes written between loseConnection() and the actual close are still flushed, as on a real TCP transport)
        self.writes.setdefault(self.connected, bytearray()).extend(struct.pack(">I", len(entry[3])) + entry[3])
        if not entry[2]:
            del self.table[rid]
            self._complete(rid, "none")

    def _attempt(self, now):
        self.connecting = True
        self.attempts.append((now,) + tuple(self.addr))

    # -- application operations --
    def op_req(self, now, rid, expect, frame):
        if rid in self.table:
            self.dup_errors += 1
            return "dup"
        if self.closing:
            self._complete(rid, "closed")
            return "closed"
        entry = self.table[rid] = [False, False, expect, frame]
        if self.connected is not None:
            self._write(entry, rid)
        elif not self.connecting:
            self.failures = 0
            self._attempt(now)
        return None

    def op_cancel(self, rid):
        if rid in self.completions or rid not in self.table:
            return
        entry = self.table[rid]
        if entry[0]:
            entry[1] = True
        else:
            del self.table[rid]
        self._complete(rid, "cancelled")

    def op_disconnect(self):
        if self.connected is not None:
            self.disconnecting = True

    def op_meta(self, addr):
        self.addr = addr

    def op_close(self):
        self.closing = True
        if self.connected is not None:
            self.disconnecting = True
        elif self.connecting:
            self.pending_attempt = None
        else:
            self.close_fired = True
        # fail everything pending, last issued first, as a nested synchronous operation
        self.steps[0:0] = [("closepop", rid) for rid in reversed(list(self.table))]

    # -- environment events --
    def env_connected(self, cid, now=None):
        if now is not None:
            self.tick(now, False)  # an outcome implies the pending attempt was made
        self.connected = cid
        self.connecting = False
        self.disconnecting = False
        self.failures = 0
        self.writes.setdefault(cid, bytearray())
        if self.closing:
            self.disconnecting = True
            return
        self.steps.extend(("send", rid) for rid, e in self.table.items() if not e[0])

    def env_connect_failed(self, now, cancelled):
        self.tick(now, False)
        if self.closing:
            self.connecting = False
            self.close_fired = True
            return
        self.failures += 1
        delay = self.policy(self.failures)
        self.pending_attempt = (now + delay,) + tuple(self.addr)

    def env_backoff_cancelled(self):
        self.connecting = False
        self.close_fired = True

    def tick(self, now, strict):
        """The backoff timer: the attempt is certain once its time has strictly passed."""
        pa = self.pending_attempt
        if pa is not None and (now > pa[0] or (not strict and now >= pa[0])):
            self.pending_attempt = None
            self.attempts.append((pa[0],) + tuple(self.addr))  # the address is read at attempt time

    def env_client_lost(self, now, cid):
        if self.connected != cid:
            return
        self.connected = None
        self.disconnecting = False
        for rid, entry in list(self.table.items()):
            if entry[1]:
                del self.table[rid]
            else:
                entry[0] = False
        if self.closing:
            self.close_fired = True
        elif self.table:
            self.failures = 0
            self._attempt(now)

    def frames_delivered(self, cid, frames, oversize, runt=False):
        self.steps.extend(("frame", cid, f) for f in frames)
        if runt:
            self.steps.append(("runt", cid))
        elif oversize:
            self.steps.append(("oversize", cid))

    def advance(self, until=None, only=None):
        """Run micro-steps in order; stop after the one that completes ``until`` (if given)."""
        while self.steps:
            if only is not None and self.steps[0][0] != only:
                return False
            st = self.steps.pop(0)
            kind = st[0]
            done = None
            if kind == "frame":
                (rid,) = struct.unpack(">i", st[2][:4])
                entry = self.table.pop(rid, None)
                if entry is not None and not entry[1]:
                    self._complete(rid, "ok", st[2])
                    done = rid
            elif kind == "oversize":
                self.disconnecting = True
            elif kind == "runt":
                pass  # the receive path fails on it: the transport drops the connection (env_client_lost follows)
            elif kind == "send":
                rid = st[1]
                entry = self.table.get(rid)
                if entry is not None and not entry[0] and self.connected is not None:
                    self._write(entry, rid)
                    if not entry[2]:
                        done = rid
            elif kind == "closepop":
                rid = st[1]
                entry = self.table.pop(rid, None)
                if entry is not None and not entry[1]:
                    self._complete(rid, "closed")
                    done = rid
            if until is not None and done == until:
                return True
        return False


# --------------------------------------------------------------------------------------------
# the scripted peer
# --------------------------------------------------------------------------------------------

class WirePeer(object):
    def __init__(self, sim, plan, res, net):
        self.sim = sim
        self.res = res
        self.net = net
        self.rules = {}
        for r in plan["peer"]:
            self.rules.setdefault(r["nth"], r["acts"])
        self.frame_no = 0
        self.bufs = {}
        self.frames_by_conn = {}
        self.reply_seq = 0
        self.rng = sim.rng("peer")
        self.cuts = {}
        for c in plan["cuts"]:
            self.cuts.setdefault(c["conn"], []).append(c)

    def accept(self, conn):
        self.bufs[conn.cid] = bytearray()
        self.frames_by_conn[conn.cid] = []
        self.sim.after(0.0, self._apply_cuts, conn)
        return self

    def _apply_cuts(self, conn):
        for c in self.cuts.get(conn.cid, ()):
            self.net.fault("cut_%s%s" % (c["dir"], "_fin" if c.get("clean") else ""))
            if c["dir"] == "s2c":
                conn.cut_s2c_after(c["after"], clean=c.get("clean", False))
            else:
                conn.cut_c2s_after(c["after"])

    def closed(self, conn, clean):
        pass

    def data(self, conn, data):
        buf = self.bufs[conn.cid]
        buf += data
        frames, used, _over = frames_of(buf)
        del buf[:used]
        for body in frames:
            self.on_frame(conn, body)

    def on_frame(self, conn, body):
        k = self.frame_no
        self.frame_no += 1
        (rid,) = struct.unpack(">i", body[4:8])
        expect = body[8:9] == b"\x01"
        self.frames_by_conn[conn.cid].append(rid)
        self.sim.record("peer_frame", conn.cid, rid)
        acts = self.rules.get(k)
        if acts is None:
            acts = [{"a": "reply", "delay": round(self.rng.random() * 0.004, 6)}] if expect else []
        else:
            self.net.fault("peer_rule")
        for act in acts:
            a = act["a"]
            if a == "reply":
                if not expect and act.get("id") is None:
                    continue
                self.sim.after(act.get("delay", 0.0), self.reply, conn, act.get("id", None), rid)
            elif a == "oversize":
                self.sim.after(act.get("delay", 0.0), self.oversize, conn, act["len"])
            elif a == "runt":
                self.sim.after(act.get("delay", 0.0), self.runt, conn, act["n"], act["id"])
            elif a == "close":
                self.sim.after(act.get("delay", 0.0), conn.close)
            elif a == "reset":
                self.sim.after(act.get("delay", 0.0), conn.reset)

    def reply(self, conn, rid, own):
        if rid is None:
            rid = own
        self.reply_seq += 1
        body = struct.pack(">i", rid) + b"R" + struct.pack(">I", self.reply_seq) + b"x" * (self.reply_seq % 23)
        conn.send(struct.pack(">I", len(body)) + body)

    def runt(self, conn, n, rid):
        self.net.fault("runt_frame")
        body = struct.pack(">i", rid)[4 - n:] if n else b""
        conn.send(struct.pack(">I", len(body)) + body)

    def oversize(self, conn, ln):
        self.net.fault("oversize_frame")
        conn.send(struct.pack(">I", ln) + b"garbage-after-oversize" * 3)


# --------------------------------------------------------------------------------------------
# running a plan
# --------------------------------------------------------------------------------------------

ADDRS = [("b1", 9092), ("b1alt", 9192)]


def _request_bytes(rid, expect, size):
    return struct.pack(">hhi", 3, 0, rid) + (b"\x01" if expect else b"\x00") + b"q" * size


def run_plan(plan):
    use_afkak_src()
    if plan["cfg"]["variant"] == "bs":
        return _run_bs(plan)
    return _run_bc(plan)


def _mk(plan):
    cfg = plan["cfg"]
    sim = Sim(plan["seed"], shuffle_ties=cfg["shuffle_ties"], max_events=60000)
    res = RunResult()
    net = SimNet(sim, lat=tuple(cfg["lat"]), connect_timeout=cfg["connect_timeout"],
                 seg=(cfg["seg_c2s"], cfg["seg_s2c"]))
    peer = WirePeer(sim, plan, res, net)
    for h, p in ADDRS:
        net.listen(h, p, peer)
    rules = {}
    for c in plan["connects"]:
        rules.setdefault(c["nth"], c["kind"])

    def connect_rule(att):
        k = rules.get(att["n"])
        if k is None:
            return None
        return {"kind": k}

    net.connect_rules.append(connect_rule)
    reactor = ProcReactor(sim, "p0")
    sim.record("seed", plan["seed"])
    logcap.begin_run()
    return sim, res, net, peer, reactor


def _run_bc(plan):
    from afkak.brokerclient import _KafkaBrokerClient
    from afkak.common import BrokerMetadata, ClientError, DuplicateRequestError
    from twisted.internet.defer import CancelledError

    cfg = plan["cfg"]
    sim, res, net, peer, reactor = _mk(plan)
    table = cfg["retry"]
    policy_calls = []

    def policy(k):
        policy_calls.append(k)
        return table[min(k, len(table)) - 1]

    def model_policy(k):
        return table[min(k, len(table)) - 1]

    bc = _KafkaBrokerClient(reactor, net.endpoint, BrokerMetadata(1, ADDRS[0][0], ADDRS[0][1]), "sim", policy)
    model = RefBrokerClient(model_policy, ADDRS[0])
    actual = {}  # id -> (kind, payload)
    watches = {}
    state = {"closed": False, "close_w": None, "in_data": 0, "bufs": {}, "stopped": set()}
    chained = {}
    for o in plan["ops"]:
        if "after" in o:
            chained.setdefault(o["after"], []).append(o)

    def classify(w):
        if w.ok:
            if w.value is None:
                return ("none", None)
            return ("ok", bytes(w.value))
        if isinstance(w.value, CancelledError):
            return ("cancelled", None)
        if isinstance(w.value, ClientError):
            return ("closed", None)
        return ("err:" + w.err, None)

    def on_fire(w):
        rid = int(w.name.split("#")[1])
        if rid in actual:
            res.violate("C06", "C06:fired-more-than-once", "request %d fired twice" % rid, sim)
        actual[rid] = classify(w)
        if rid not in model.completions:
            model.advance(until=rid)
        for o in chained.pop(rid, ()):
            do_op(o)

    def do_op(o):
        kind = o["op"]
        sim.record("op", kind, o.get("id"))
        sim.mark("op", kind)
        if kind == "req":
            rid = o["id"]
            if rid in watches:
                return
            frame = _request_bytes(rid, o["expect"], o["size"])
            pre = model.op_req(sim.now, rid, o["expect"], frame)
            try:
                d = bc.makeRequest(rid, frame, o["expect"])
            except DuplicateRequestError:
                if pre != "dup":
                    res.violate("C06", "C06:unexpected-duplicate-error", "id %d" % rid, sim)
                return
            if pre == "dup":
                res.violate("C06", "C06:duplicate-id-accepted", "id %d reused while in flight" % rid, sim)
            watches[rid] = watch(d, "req#%d" % rid, sim, on_fire)
            watches[rid].d = d
        elif kind == "dup":
            rid = o["id"]
            w = watches.get(rid)
            if w is None or (rid in actual and rid not in model.table):
                return
            if rid in actual:
                res.probe("duplicate_of_cancelled_but_written_request")
            # in flight right now (or written, cancelled and still awaiting its reply): a second makeRequest with that id
            # must raise and disturb nothing
            frame = _request_bytes(rid, True, 1)
            pre = model.op_req(sim.now, rid, True, frame)
            try:
                bc.makeRequest(rid, frame, True)
            except DuplicateRequestError:
                res.probe("duplicate_rejected")
                if pre != "dup":
                    res.violate("C06", "C06:unexpected-duplicate-error", "id %d" % rid, sim)
            else:
                res.violate("C06", "C06:duplicate-id-accepted", "id %d reused while in flight" % rid, sim)
        elif kind == "cancel":
            w = watches.get(o["id"])
            if w is None:
                return
            if o["id"] not in actual:
                e = model.table.get(o["id"])
                if e is not None and e[0]:
                    res.probe("cancel_after_sent")
                else:
                    res.probe("cancel_before_sent")
            model.op_cancel(o["id"])
            w.d.cancel()
        elif kind == "disconnect":
            model.op_disconnect()
            bc.disconnect()
        elif kind == "meta":
            a = ADDRS[o["addr"]]
            model.op_meta(a)
            bc.updateMetadata(BrokerMetadata(1, a[0], a[1]))
        elif kind == "close":
            if state["closed"]:
                return
            state["closed"] = True
            state["close_t"] = sim.now
            if model.connecting and model.pending_attempt is not None:
                res.probe("close_during_backoff")
                model.op_close()
                model.env_backoff_cancelled()
            else:
                if model.connecting:
                    res.probe("close_while_connecting")
                elif model.connected is not None:
                    res.probe("close_connected_with_%s" % ("requests" if model.table else "idle"))
                model.op_close()
            state["n_attempts_at_close"] = len(net.attempts)
            try:
                d = bc.close()
            except HarnessError:
                raise
            except Exception as e:
                # close() itself blew up (e.g. on a request that a failure handler had just cancelled): whatever it had not
                # failed yet stays pending for good
                res.violate("C10", "C10:close-raised:%s" % type(e).__name__, "close() raised %r" % (e,), sim)
                res.violate("C06", "C06:close-raised:%s" % type(e).__name__, "close() raised %r; requests still in the table: %r" % (e, list(getattr(bc, "requests", {}))[:6]), sim)
                state["aborted"] = True
                return
            model.advance(only="closepop")
            state["close_w"] = watch(d, "close", sim)
        else:
            raise HarnessError("unknown op %r" % (kind,))

    # ---- environment hooks feeding the model ----
    def on_connected(conn):
        model.env_connected(conn.cid, sim.now)
        state["bufs"][conn.cid] = bytearray()

    def on_client_data(conn, data, before):
        if before:
            state["in_data"] += 1
            if conn.cid in state["stopped"]:
                return
            buf = state["bufs"][conn.cid]
            buf += data
            frames, used, over = frames_of(buf)
            del buf[:used]
            runt = False
            for i_, f_ in enumerate(frames):
                if len(f_) < 4:
                    frames, runt = frames[:i_], True
                    break
            model.frames_delivered(conn.cid, frames, over and not runt, runt)
            if runt:
                state["stopped"].add(conn.cid)
                state.setdefault("runted", set()).add(conn.cid)
                res.probe("runt_frame_seen_by_client")
            elif over:
                state["stopped"].add(conn.cid)
                res.probe("oversize_seen_by_client")
        else:
            state["in_data"] -= 1
            model.advance()
            if conn.cid in state["stopped"] and conn.cid not in state.get("runted", ()) and not conn.transport.disconnecting:
                res.violate("C06", "C06:impossible-length-not-terminated",
                            "frame announcing an impossible length did not terminate the connection", sim)

    def on_client_lost(conn):
        model.env_client_lost(sim.now, conn.cid)

    net.on_connected = on_connected
    net.on_client_data = on_client_data
    net.on_client_lost = on_client_lost

    orig_rules = list(net.connect_rules)

    def failing_rule(att):
        # observe outcomes of attempts for the model: wrap by scheduling a check
        return None

    # connect failures are observed through the attempt records
    seen_attempts = {"n": 0}

    def feed_attempt_outcomes():
        while seen_attempts["n"] < len(net.attempts):
            att = net.attempts[seen_attempts["n"]]
            if att["outcome"] is None:
                break
            seen_attempts["n"] += 1
            if att["outcome"] == "ok":
                continue  # env_connected came through the hook
            if att["outcome"] == "cancelled":
                model.env_connect_failed(sim.now, True)
            else:
                model.env_connect_failed(sim.now, False)

    strict = True

    def compare():
        feed_attempt_outcomes()
        model.advance()
        model.tick(sim.now, strict)
        # C06: completions
        if model.double:
            res.violate("C06", "C06:model-double-completion", "ids %r" % (model.double,), sim)
        if actual != model.completions:
            for rid in sorted(set(actual) | set(model.completions)):
                a = actual.get(rid)
                m = model.completions.get(rid)
                if a == m:
                    continue
                if a is None:
                    sig = "C06:missing-completion:%s" % m[0]
                elif m is None:
                    sig = "C06:unexpected-completion:%s" % a[0]
                elif a[0] == m[0] == "ok":
                    sig = "C06:response-delivered-to-wrong-request"
                else:
                    sig = "C06:wrong-outcome:%s-instead-of-%s" % (a[0], m[0])
                res.violate("C06", sig, "request %d: actual %r model %r" % (rid, _b(a), _b(m)), sim)
                break
        # C10: bytes written per connection
        for conn in net.conns:
            want = bytes(model.writes.get(conn.cid, b""))
            got = b"".join(d for _t, d in conn.client_writes)
            if want != got:
                res.violate("C10", "C10:resend-sequence", "conn %d wrote ids %r, model %r" % (
                    conn.cid, _ids(got), _ids(want)), sim)
                break
        # C10: connection attempts (time, host, port)
        got_att = [(a["t"], a["host"], a["port"]) for a in net.attempts]
        want_att = list(model.attempts)
        if got_att != want_att:
            pa = model.pending_attempt
            ok = False
            if pa is not None and got_att[:len(want_att)] == want_att and len(got_att) == len(want_att) + 1 \
                    and abs(got_att[-1][0] - pa[0]) < 1e-9 and sim.now <= pa[0] + 1e-9:
                ok = True  # the backoff timer fired in this very instant, before tick() considers it certain
            if not ok:
                sig = "C10:reconnect-schedule"
                if state["closed"] and len(got_att) > state.get("n_attempts_at_close", 1 << 30) and \
                        len(got_att) > len(want_att):
                    sig = "C10:connect-after-close"
                res.violate("C10", sig, "attempts %r, model %r pending %r" % (got_att[-4:], want_att[-4:], pa), sim)
        if state["close_w"] is not None:
            cw = state["close_w"]
            if cw.fires > 1:
                res.violate("C10", "C10:close-fired-twice", "", sim)
            if bool(cw.fires) != model.close_fired:
                res.violate("C10", "C10:close-deferred-timing", "close fired=%d model=%r" % (cw.fires, model.close_fired), sim)

    sim.after_event.append(compare)
    sim.before_event.append(lambda: model.tick(sim.now, True))

    for o in plan["ops"]:
        if "t" in o:
            sim.at(o["t"], do_op, o)
    sim.at(plan["t_end"], do_op, {"op": "close"})
    try:
        sim.run(until=plan["t_end"] + 200.0)
    except HarnessError as e:
        res.harness_error = repr(e)

    # ---- end-of-run obligations ----
    for rid, w in watches.items():
        res.oblige("C06")
        if w.fires != 1:
            res.violate("C06", "C06:not-fired-exactly-once", "request %d fired %d times by the end" % (rid, w.fires), sim)
    if state["close_w"] is not None and state["close_w"].fires != 1:
        res.violate("C10", "C10:close-deferred-never-fired", "", sim)
    for c in net.conns:
        res.oblige("C10")
        # the peer saw a prefix of what the model says was written (self-check of the simulator)
        if not b"".join(d for _t, d in c.client_writes).startswith(bytes(c.server_received)):
            res.harness_error = "peer received bytes that are not a prefix of the writes on conn %d" % c.cid
        if not c.client_lost:
            res.violate("C10", "C10:connection-left-open-after-close", "conn %d" % c.cid, sim)
    if reactor.pending():
        res.violate("C10", "C10:timer-left-after-close", "%r" % [dc.sim_creator for dc in reactor.pending()], sim)
    _double_fire_check(sim, res)
    # probes / reach
    if any(k.startswith("cut_") for k in net.fault_counts):
        res.probe("cut_configured")
    resent = 0
    seen = set()
    for cid, ids_ in peer.frames_by_conn.items():
        for i in ids_:
            if i in seen:
                resent += 1
            seen.add(i)
    if resent:
        res.probe("resent_after_reconnect", resent)
    if len(net.conns) > 1:
        res.probe("reconnected")
    if any(a["outcome"] not in ("ok", None) for a in net.attempts):
        res.probe("connect_failed")
    if len(policy_calls) >= 2:
        res.probe("backoff_twice")
    kinds = set(v[0] for v in actual.values())
    for k in kinds:
        res.probe("completion_" + k)
    midframe = any(c.lost_reason == "ConnectionLost" and len(c.client_received) and
                   frames_of(c.client_received)[1] != len(c.client_received) for c in net.conns)
    if midframe:
        res.probe("cut_inside_frame")
    nontriv = bool(net.fault_counts) and len(actual) > 0
    res.nontrivial["C06"] = nontriv and len(watches) > 1
    res.nontrivial["C10"] = nontriv and (len(net.conns) > 1 or any(a["outcome"] != "ok" for a in net.attempts))
    return _finish(sim, res, net)


def _b(x):
    if x is None:
        return None
    return (x[0], None if x[1] is None else x[1][:12])


def _ids(stream):
    frames, _u, _o = frames_of(bytearray(stream))
    out = []
    for f in frames:
        if len(f) >= 8:
            out.append(struct.unpack(">i", f[4:8])[0])
    return out


def _double_fire_check(sim, res):
    for where, etype, msg, frames in sim.uncaught:
        if etype == "AlreadyCalledError":
            prop = "C06"
            res.violate(prop, "%s:second-fire-attempt" % prop, "%s %r" % (where, frames), sim)
        else:
            res.notes.append("uncaught %s at %s: %s %r" % (etype, where, msg, frames))
    res.uncaught = [list(u[:3]) for u in sim.uncaught]


def _finish(sim, res, net):
    res.digest = sim.digest()
    res.order_digest = sim.trace_order.hexdigest()
    res.events = sim.events_run
    res.sim_time = sim.last_event_t
    res.faults = dict(net.fault_counts)
    res.overrun = sim.overrun
    for kind, etype, msg, fmt in logcap.end_run():
        res.notes.append("twisted-log %s %s %s" % (kind, etype, msg))
    if sim.harness_errors and res.harness_error is None:
        res.harness_error = sim.harness_errors[0]
    if sim.overrun and res.harness_error is None:
        res.harness_error = "event cap reached"
    return res


# --------------------------------------------------------------------------------------------
# KafkaBootstrapProtocol variant
# --------------------------------------------------------------------------------------------

def _run_bs(plan):
    from afkak._protocol import bootstrapFactory

    sim, res, net, peer, reactor = _mk(plan)
    watches = {}
    delivered = {"frames": [], "buf": bytearray(), "stopped": False}
    state = {"proto": None, "lost": False, "conn": None}

    def on_client_data(conn, data, before):
        if not before or delivered["stopped"]:
            return
        buf = delivered["buf"]
        buf += data
        frames, used, over = frames_of(buf)
        del buf[:used]
        delivered["frames"].extend(frames)
        if over:
            delivered["stopped"] = True

    def on_client_lost(conn):
        state["lost"] = True

    net.on_client_data = on_client_data
    net.on_client_lost = on_client_lost

    def connected(proto):
        state["proto"] = proto
        state["conn"] = net.conns[-1]

    d = net.endpoint(reactor, ADDRS[0][0], ADDRS[0][1]).connect(bootstrapFactory)
    d.addCallbacks(connected, lambda f: None)

    def check_fire(w):
        rid = int(w.name.split("#")[1])
        if w.fires > 1:
            res.violate("C06", "C06:fired-more-than-once", "bootstrap request %d" % rid, sim)
        if w.ok:
            v = bytes(w.value)
            own = struct.pack(">i", rid)
            if v[:4] != own:
                res.violate("C06", "C06:response-delivered-to-wrong-request",
                            "bootstrap request %d got frame with id bytes %r" % (rid, v[:4]), sim)
            elif v not in delivered["frames"]:
                res.violate("C06", "C06:completed-with-bytes-never-delivered", "bootstrap request %d" % rid, sim)
            else:
                res.probe("bs_completion_ok")
        else:
            res.probe("bs_completion_" + w.err)

    def do_op(o):
        sim.record("op", o["op"], o.get("id"))
        sim.mark("op", o["op"])
        if o["op"] == "req":
            if state["proto"] is None or o["id"] in watches:
                return
            frame = _request_bytes(o["id"], True, o["size"])
            try:
                dd = state["proto"].request(frame)
            except Exception:
                sim.sut_exception("bootstrap.request")
                return
            w = watches[o["id"]] = watch(dd, "bsreq#%d" % o["id"], sim, check_fire)
            w.d = dd
        elif o["op"] == "cancel":
            w = watches.get(o["id"])
            if w is not None:
                w.d.cancel()
        elif o["op"] == "end":
            if state["proto"] is not None and not state["lost"]:
                state["proto"].transport.loseConnection()

    for o in plan["ops"]:
        if "t" in o and o["op"] in ("req", "cancel"):
            sim.at(o["t"] + 0.02, do_op, o)
    sim.at(plan["t_end"] + 0.02, do_op, {"op": "end"})
    try:
        sim.run(until=plan["t_end"] + 100.0)
    except HarnessError as e:
        res.harness_error = repr(e)
    for rid, w in watches.items():
        res.oblige("C06")
        if w.fires != 1:
            res.violate("C06", "C06:not-fired-exactly-once",
                        "bootstrap request %d fired %d times once the connection was gone" % (rid, w.fires), sim)
    _double_fire_check(sim, res)
    res.nontrivial["C06"] = bool(net.fault_counts) and len(watches) > 1
    res.nontrivial["C10"] = False
    return _finish(sim, res, net)
