"""Which scenario families decide which property, and how many seeds each tier spends."""

# family -> runs per tier.  Sized so that quick finishes in well under a minute on 16 cores.
CHECKS = {
    "C01": {"quick": [("pr", 12000)], "thorough": [("pr", 150000)]},
    "C02": {"quick": [("co", 4000)], "thorough": [("co", 60000)]},
    "C03": {"quick": [("co", 4000)], "thorough": [("co", 60000)]},
    "C04": {"quick": [("pr", 3000), ("cl", 3000), ("co", 800), ("gr", 150)], "thorough": [("pr", 60000), ("cl", 60000), ("co", 20000), ("gr", 2000)]},
    "C05": {"quick": [("co", 3000), ("cl", 8000)], "thorough": [("co", 40000), ("cl", 100000)]},
    "C06": {"quick": [("bc", 30000)], "thorough": [("bc", 30000)]},
    "C07": {"quick": [("cl", 12000)], "thorough": [("cl", 250000)]},
    "C08": {"quick": [("pr", 4000), ("cl", 8000), ("co", 1500)], "thorough": [("pr", 60000), ("cl", 100000), ("co", 30000)]},
    "C09": {"quick": [("pr", 12000)], "thorough": [("pr", 150000)]},
    "C10": {"quick": [("bc", 30000)], "thorough": [("bc", 30000)]},
    "C11": {"quick": [("cl", 12000)], "thorough": [("cl", 250000)]},
    "C12": {"quick": [("co", 4000), ("cl", 4000)], "thorough": [("co", 50000), ("cl", 80000)]},
    "C13": {"quick": [("co", 4000)], "thorough": [("co", 60000)]},
    "C14": {"quick": [("co", 4000)], "thorough": [("co", 60000)]},
    "C15": {"quick": [("gr", 500)], "thorough": [("gr", 8000)]},
    "C16": {"quick": [("gr", 500)], "thorough": [("gr", 8000)]},
    "C17": {"quick": [("gr", 500)], "thorough": [("gr", 8000)]},
    "C18": {"quick": [("pr", 12000)], "thorough": [("pr", 150000)]},
    "C19": {"quick": [("pr", 12000)], "thorough": [("pr", 150000)]},
    "C20": {"quick": [("cl", 12000)], "thorough": [("cl", 250000)]},
}

REAL_VS_STUB = {
    "real": [
        "afkak.producer.Producer", "afkak.consumer.Consumer", "afkak._group.Coordinator/ConsumerGroup",
        "afkak.client.KafkaClient", "afkak.brokerclient._KafkaBrokerClient", "afkak._protocol.*",
        "afkak.kafkacodec", "afkak._util", "afkak.codec (gzip)", "afkak.partitioner (pure murmur2)",
        "twisted Deferred/inlineCallbacks/DeferredList/LoopingCall/Int32StringReceiver",
    ],
    "stub": [
        "Twisted reactor -> simkafka.core.ProcReactor (virtual time)",
        "TCP endpoints/transports -> simkafka.net.SimNet (ordered byte pipes, seeded segmentation, cuts)",
        "Kafka brokers/logs/coordinator -> simkafka.cluster (written from the protocol guide)",
        "broker-side wire codec -> simkafka.kwire (independent of afkak.kafkacodec)",
    ],
}
