"""Batch execution, known-findings handling, shrinking, replay files and evidence."""
import concurrent.futures as cf
import faulthandler
import hashlib
import importlib
import json
import multiprocessing
import signal
import os
import subprocess
import sys
import time
import traceback

ROOT = os.path.dirname(os.path.dirname(os.path.abspath(__file__)))
OUT = os.path.join(ROOT, "out")
REPLAYS = os.path.join(OUT, "replays")
EVIDENCE = os.path.join(ROOT, "evidence")
KNOWN = os.path.join(ROOT, "known_findings.json")

FAMILY_MODULES = {
    "bc": "simkafka.scen_bc",
    "pr": "simkafka.scen_pr",
    "co": "simkafka.scen_co",
    "cl": "simkafka.scen_cl",
    "gr": "simkafka.scen_gr",
}


def family(name):
    return importlib.import_module(FAMILY_MODULES[name])


def run_seed(base, i):
    return (base * 1000003 + i * 7 + 11) % (2 ** 31 - 1)


# ---------------------------------------------------------------------------------------------
# worker side
# ---------------------------------------------------------------------------------------------

def _summarise(res):
    return res.to_dict()


RUN_WALL_LIMIT = 40  # seconds of *CPU time* of this process (ITIMER_VIRTUAL): a loaded machine does not shorten it


class RunHung(BaseException):
    pass


_HUNG = {"flag": False}


def _on_alarm(signum, frame):
    # Twisted's callback runner catches everything, BaseException included: the exception may be swallowed and the run
    # go on in a corrupted state.  The flag makes whatever such a run reports void; the repeating timer interrupts again.
    _HUNG["flag"] = True
    raise RunHung()


def _arm():
    _HUNG["flag"] = False
    signal.setitimer(signal.ITIMER_VIRTUAL, RUN_WALL_LIMIT, 2.0)


def _disarm():
    signal.setitimer(signal.ITIMER_VIRTUAL, 0)


HANG_SIG = "C12:decoding-did-not-terminate"


def run_plan_dict(plan):
    """Run one plan in this process, guarded by the wall-clock watchdog (a hang becomes a result, not a hang)."""
    mod = family(plan["family"])
    old = signal.signal(signal.SIGVTALRM, _on_alarm)
    _arm()
    try:
        res = mod.run_plan(plan)
        _disarm()
        if _HUNG["flag"]:
            raise RunHung()
    except RunHung:
        _disarm()
        from .observe import RunResult
        res = RunResult()
        res.digest = "hang"
        if plan.get("cfg", {}).get("variant") in ("garbage", "corrupt"):
            res.violate("C12", HANG_SIG, "run did not return to the simulator within %d s of CPU time" % RUN_WALL_LIMIT)
        else:
            res.harness_error = "HANG"
    finally:
        _disarm()
        signal.signal(signal.SIGVTALRM, old)
    return res


def _work(job):
    """Run a chunk of seeds of one family; return an aggregate (keeps IPC small)."""
    fam, tier, seeds, prop, wall_cap = job
    faulthandler.dump_traceback_later(wall_cap, exit=True)
    signal.signal(signal.SIGVTALRM, _on_alarm)
    mod = family(fam)
    agg = {
        "family": fam, "runs": 0, "events": 0, "sim_time": 0.0, "faults": {}, "probes": {}, "orders": [],
        "nontrivial_orders": [], "states": [], "violations": [], "harness": [], "obligations": 0,
        "others": {}, "samples": [], "notes": [], "wall": 0.0,
    }
    t0 = time.time()
    states = set()
    for seed in seeds:
        try:
            plans = mod.plans_for(seed, tier)
        except Exception:
            agg["harness"].append({"seed": seed, "error": "plans_for: " + traceback.format_exc()[-800:]})
            continue
        for idx, plan in enumerate(plans):
            try:
                _arm()
                try:
                    res = mod.run_plan(plan)
                finally:
                    _disarm()
                if _HUNG["flag"]:
                    raise RunHung()  # it fired and was swallowed somewhere inside: the result is void
            except RunHung:
                if prop == "C12" and plan.get("cfg", {}).get("variant") in ("garbage", "corrupt"):
                    # termination on hostile bytes *is* the property there
                    agg["violations"].append({"seed": seed, "idx": idx, "sig": "C12:decoding-did-not-terminate",
                                              "msg": "run did not return to the simulator within %d s of CPU time while hostile bytes were being decoded: %s" % (
                                                  RUN_WALL_LIMIT, traceback.format_exc()[-300:].replace("\n", " | ")), "t": None, "digest": None})
                    agg["runs"] += 1
                    continue
                # event caps do not bound a loop that never returns to the simulator (inside afkak or an oracle)
                agg["harness"].append({"seed": seed, "idx": idx, "error": "HANG: run exceeded %d s of CPU time: %s" % (
                    RUN_WALL_LIMIT, traceback.format_exc()[-900:])})
                continue
            except Exception:
                agg["harness"].append({"seed": seed, "idx": idx, "error": traceback.format_exc()[-1200:]})
                continue
            agg["runs"] += 1
            agg["events"] += res.events
            agg["sim_time"] += res.sim_time
            for k, v in res.faults.items():
                agg["faults"][k] = agg["faults"].get(k, 0) + v
            for k, v in res.probes.items():
                agg["probes"][k] = agg["probes"].get(k, 0) + v
            od = res.order_digest[:16] if res.order_digest else ""
            agg["orders"].append(od)
            if res.nontrivial.get(prop):
                agg["nontrivial_orders"].append(od)
            agg["obligations"] += res.obligations.get(prop, 0)
            states.update(res.states)
            if res.harness_error:
                agg["harness"].append({"seed": seed, "idx": idx, "error": res.harness_error})
            for v in res.violations:
                if v["prop"] == prop:
                    agg["violations"].append({"seed": seed, "idx": idx, "sig": v["sig"], "msg": v["msg"],
                                              "t": v.get("t"), "digest": res.digest})
                else:
                    agg["others"][v["sig"]] = agg["others"].get(v["sig"], 0) + 1
            if len(agg["samples"]) < 1 and idx == 0:
                agg["samples"].append(plan)
            if res.notes and len(agg["notes"]) < 5:
                agg["notes"].append({"seed": seed, "note": res.notes[0][:200]})
    agg["states"] = sorted(states)
    agg["wall"] = time.time() - t0
    faulthandler.cancel_dump_traceback_later()
    return agg


def _pool(workers):
    ctx = multiprocessing.get_context("fork")
    return cf.ProcessPoolExecutor(max_workers=workers, mp_context=ctx)


_COST = {"gr": 1.5, "co": 0.1, "pr": 0.03, "cl": 0.03, "bc": 0.003}  # rough CPU seconds per run, for sizing the chunks


def run_batch(prop, fams, tier, base_seed, workers=None, chunk=None, wall_cap=1800, deadline=None):
    """fams: list of (family, n_seeds).  Returns merged aggregate."""
    workers = workers or min(16, os.cpu_count() or 4)
    jobs = []
    for fam, n in fams:
        seeds = [run_seed(base_seed, i) for i in range(n)]
        # a chunk is meant to take well under a minute of CPU, so that the per-worker wall cap (a last resort against a
        # worker that is stuck outside any run) stays far away even on a heavily loaded machine
        c = chunk or max(1, min(200, int(40 / _COST.get(fam, 0.1)), n // (workers * 4) or 1))
        for j in range(0, n, c):
            jobs.append((fam, tier, seeds[j:j + c], prop, wall_cap))
    merged = {
        "runs": 0, "events": 0, "sim_time": 0.0, "faults": {}, "probes": {}, "orders": set(),
        "nontrivial_orders": set(), "states": set(), "violations": [], "harness": [], "obligations": 0,
        "others": {}, "samples": [], "notes": [], "per_family": {}, "skipped_jobs": 0,
    }
    if not jobs:
        return merged
    with _pool(workers) as ex:
        futs = [ex.submit(_work, j) for j in jobs]
        for fut, job in zip(futs, jobs):
            try:
                if deadline is not None and time.time() > deadline and not fut.running() and not fut.done():
                    if fut.cancel():
                        merged["skipped_jobs"] += 1
                        continue
                a = fut.result(timeout=wall_cap + 60)
            except Exception as e:
                merged["harness"].append({"family": job[0], "error": "worker failed: %r" % (e,)})
                continue
            merged["runs"] += a["runs"]
            merged["events"] += a["events"]
            merged["sim_time"] += a["sim_time"]
            merged["obligations"] += a["obligations"]
            for k, v in a["faults"].items():
                merged["faults"][k] = merged["faults"].get(k, 0) + v
            for k, v in a["probes"].items():
                merged["probes"][k] = merged["probes"].get(k, 0) + v
            for k, v in a["others"].items():
                merged["others"][k] = merged["others"].get(k, 0) + v
            merged["orders"].update(a["orders"])
            merged["nontrivial_orders"].update(a["nontrivial_orders"])
            merged["states"].update(a["states"])
            for v in a["violations"]:
                v["family"] = a["family"]
                merged["violations"].append(v)
            merged["harness"].extend(a["harness"])
            if len(merged["samples"]) < 3:
                merged["samples"].extend(a["samples"][:1])
            merged["notes"].extend(a["notes"][:2])
            pf = merged["per_family"].setdefault(a["family"], {"runs": 0, "wall_cpu_s": 0.0})
            pf["runs"] += a["runs"]
            pf["wall_cpu_s"] += a["wall"]
    return merged


# ---------------------------------------------------------------------------------------------
# known findings
# ---------------------------------------------------------------------------------------------

def load_known():
    try:
        with open(KNOWN) as f:
            k = json.load(f)
    except FileNotFoundError:
        return {"findings": [], "fixed": []}
    return k


def known_match(known, prop, sig):
    for f in known.get("findings", []):
        if f["property"] == prop and f["signature"] == sig:
            return f
    return None


# ---------------------------------------------------------------------------------------------
# shrinking (ddmin over the plan's lists, then configuration simplification)
# ---------------------------------------------------------------------------------------------

def _same(plan, prop, sig):
    try:
        res = run_plan_dict(plan)
    except Exception:
        return False
    if res.harness_error:
        return False
    return any(v["prop"] == prop and v["sig"] == sig for v in res.violations)


def _ddmin_list(plan, key, prop, sig, budget):
    items = list(plan.get(key) or [])
    n = 2
    while len(items) >= 1 and budget[0] > 0:
        size = max(1, len(items) // n)
        reduced = False
        for i in range(0, len(items), size):
            cand_items = items[:i] + items[i + size:]
            cand = dict(plan)
            cand[key] = cand_items
            budget[0] -= 1
            if _same(cand, prop, sig):
                items = cand_items
                plan = cand
                n = max(n - 1, 2)
                reduced = True
                break
            if budget[0] <= 0:
                break
        if not reduced:
            if size == 1:
                break
            n = min(len(items), n * 2)
    out = dict(plan)
    out[key] = items
    return out


class _Budget(list):
    """[runs left]; also exhausted once the wall-clock allowance is used up."""

    def __init__(self, runs, seconds):
        list.__init__(self, [runs])
        self.deadline = time.time() + seconds

    def __getitem__(self, i):
        if time.time() > self.deadline:
            return 0
        return list.__getitem__(self, i)


def shrink(plan, prop, sig, budget=200, seconds=90):
    mod = family(plan["family"])
    b = _Budget(budget, seconds)
    if not _same(plan, prop, sig):
        return plan, False
    for key in getattr(mod, "SHRINK_LISTS", ("faults", "ops")):
        if plan.get(key):
            plan = _ddmin_list(plan, key, prop, sig, b)
    simp = getattr(mod, "simplify", None)
    if simp is not None:
        progress = True
        while progress and b[0] > 0:
            progress = False
            for cand in simp(plan):
                b[0] -= 1
                if _same(cand, prop, sig):
                    plan = cand
                    progress = True
                    break
                if b[0] <= 0:
                    break
    return plan, True


def write_replay(prop, viol, plan, minimised, res):
    os.makedirs(REPLAYS, exist_ok=True)
    name = "%s-%s-%d.json" % (prop, plan["family"], plan["seed"])
    path = os.path.join(REPLAYS, name)
    doc = {
        "property": prop,
        "signature": viol["sig"],
        "message": viol["msg"],
        "seed": plan["seed"],
        "family": plan["family"],
        "minimised": minimised,
        "plan": plan,
        "expected_digest": res.digest,
        "violations": [v for v in res.violations if v["prop"] == prop],
        "replay": "bin/check %s --replay %s" % (prop, path),
    }
    with open(path, "w") as f:
        json.dump(doc, f, indent=1, sort_keys=True)
    return path


def replay(path, prop=None):
    with open(path) as f:
        doc = json.load(f)
    res = run_plan_dict(doc["plan"])
    prop = prop or doc["property"]
    hit = [v for v in res.violations if v["prop"] == prop and v["sig"] == doc["signature"]]
    same_digest = res.digest == doc.get("expected_digest")
    return doc, res, hit, same_digest


# ---------------------------------------------------------------------------------------------
# determinism spot check (harness self-test inside every check)
# ---------------------------------------------------------------------------------------------

def determinism_sample(fams, tier, base_seed, n=6):
    """Run a few plans twice in this process and once in a fresh interpreter; digests must agree."""
    problems = []
    sample = []
    for fam, _n in fams:
        mod = family(fam)
        for i in range(n):
            seed = run_seed(base_seed, i)
            plan = mod.plans_for(seed, tier)[0]
            d1 = mod.run_plan(plan).digest
            d2 = mod.run_plan(plan).digest
            if d1 != d2:
                problems.append("in-process digests differ: family %s seed %d" % (fam, seed))
            sample.append((fam, seed, d1))
    # fresh interpreter, different hash seed on purpose is not possible (afkak iterates sets onto the wire,
    # DESIGN 3.6), so the fresh run keeps PYTHONHASHSEED=0 but shares nothing else with this process
    code = (
        "import sys, json; sys.path.insert(0, %r)\n"
        "from simkafka import runner\n"
        "out = []\n"
        "for fam, seed, tier in json.loads(sys.argv[1]):\n"
        "    mod = runner.family(fam)\n"
        "    out.append(mod.run_plan(mod.plans_for(seed, tier)[0]).digest)\n"
        "print(json.dumps(out))\n" % ROOT
    )
    arg = json.dumps([(fam, seed, tier) for fam, seed, _d in sample])
    env = dict(os.environ)
    env["PYTHONHASHSEED"] = "0"
    try:
        p = subprocess.run([sys.executable, "-c", code, arg], capture_output=True, text=True, timeout=300, env=env)
        fresh = json.loads(p.stdout.strip().splitlines()[-1])
        for (fam, seed, d), f in zip(sample, fresh):
            if d != f:
                problems.append("fresh-interpreter digest differs: family %s seed %d" % (fam, seed))
    except Exception as e:
        problems.append("fresh-interpreter run failed: %r" % (e,))
    return problems, len(sample)


def sha(s):
    return hashlib.sha256(s.encode()).hexdigest()
