"""Capture Twisted's global log (e.g. "Unhandled error in Deferred") instead of letting it reach stderr.

These reports depend on garbage collection timing, so they are informational only: they never enter the
event log or the digest."""
import gc
import io

from twisted.logger import globalLogBeginner, globalLogPublisher

_current = []
_installed = [False]


def _observer(event):
    try:
        fmt = event.get("log_format") or ""
        f = event.get("log_failure")
        if f is not None:
            _current.append(("failure", f.type.__name__, str(f.value)[:160], fmt[:60] if isinstance(fmt, str) else ""))
        elif event.get("isError"):
            _current.append(("error", "", str(event.get("message", ""))[:160], ""))
    except Exception:
        pass


def install():
    if _installed[0]:
        return
    _installed[0] = True
    try:
        globalLogBeginner.beginLoggingTo([_observer], redirectStandardIO=False, discardBuffer=True)
    except Exception:
        globalLogPublisher.addObserver(_observer)


def begin_run():
    install()
    del _current[:]


def end_run():
    gc.collect(0)
    out = list(_current)
    del _current[:]
    return out
