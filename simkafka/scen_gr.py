"""Family GR: 1-3 real ConsumerGroup members (each its own KafkaClient and process) plus phantom members
against the simulated coordinator.

Decides C15 (assignment: every partition to exactly one subscribed member, balanced, listing-order independent,
members run exactly what they were handed), C16 (generation fencing) and C17 (bounded progress toward stable
membership once faults stop).
"""
import random

from . import kwire
from .core import HarnessError
from .groupcoord import STABLE, GroupCoordinator, Phantom
from .kwire import Msg
from .observe import watch
from .world import Observed, World

FAMILY = "gr"
SHRINK_LISTS = ("faults", "ops", "phantoms")
GROUP = "grp"


def simplify(plan):
    cfg = plan["cfg"]
    for key, val in (("shuffle_ties", False), ("seg", ["coalesce", "coalesce"]), ("lat", [0.0005, 0.001])):
        if cfg.get(key) != val:
            c = dict(plan)
            c["cfg"] = dict(cfg)
            c["cfg"][key] = val
            yield c
    if len(cfg["members"]) > 1:
        for i in range(len(cfg["members"])):
            c = dict(plan)
            c["cfg"] = dict(cfg)
            c["cfg"]["members"] = cfg["members"][:i] + cfg["members"][i + 1:]
            yield c


def gen_plan(seed, tier="quick", variant=None):
    rng = random.Random(seed * 2654435761 % (2 ** 31) + 9)
    thorough = tier == "thorough"
    if variant is None:
        variant = rng.choice(["faulty", "faulty", "churn", "clean", "assign", "overlap", "overlap", "stopfault", "stopfault"])
    nb = rng.randint(1, 3)
    ntop = rng.randint(1, 3)
    topics = []
    for i in range(ntop):
        np_ = rng.randint(1, 7 if (thorough or variant == "assign") else 4)
        if rng.random() < 0.3:
            ids = sorted(rng.sample(range(0, 12), np_))
        else:
            ids = list(range(np_))
        topics.append({"name": "g%d" % i, "parts": np_, "part_ids": ids, "msgs": rng.choice([0, 2, 5])})
    nmem = rng.choice([1, 1, 2, 2, 3]) if not thorough else rng.choice([1, 2, 3, 3])
    members = []
    names = [t["name"] for t in topics]
    same_subs = rng.random() < 0.5
    for i in range(nmem):
        subs = names if same_subs else rng.sample(names, rng.randint(1, len(names)))
        members.append({
            "topics": subs, "session_ms": rng.choice([800, 1500, 3000]), "hb_ms": rng.choice([50, 100, 200]),
            "initial_backoff_ms": rng.choice([50, 200]), "retry_backoff_ms": rng.choice([20, 100]), "fatal_backoff_ms": rng.choice([300, 1000]),
            "start_t": round(rng.random() * 0.3, 6), "buffer_size": rng.choice([256, 4096]),
            "every_n": rng.choice([0, 1, 3]), "every_ms": rng.choice([0, 50, 500]), "proc_delay": rng.choice([0.0, 0.0, 0.01, 0.1]),
        })
    phantoms = []
    for i in range(rng.choice([0, 0, 1, 2]) if variant != "clean" else rng.choice([0, 1])):
        phantoms.append({"name": "ph%d" % i, "topics": names if same_subs else rng.sample(names, rng.randint(1, len(names))),
                         "session_ms": rng.choice([800, 1500]), "join_t": round(rng.random() * 1.5, 6),
                         "end": rng.choice(["stay", "leave", "silent"]), "end_t": round(0.5 + rng.random() * 2.0, 6),
                         "join_delay": rng.choice([0.001, 0.02, 0.2])})
    horizon = 2.5
    timeout_ms = rng.choice([500, 1000, 3000])
    cfg = {
        "variant": variant, "brokers": nb, "topics": topics,
        "lat": [0.0005, rng.choice([0.001, 0.005])],
        "seg": [rng.choice(["coalesce", "writes", "random"]), rng.choice(["coalesce", "writes", "random"])],
        "shuffle_ties": rng.random() < 0.5,
        "client": {"timeout_ms": timeout_ms, "discover": rng.random() < 0.5, "retry": [round(rng.choice([0.01, 0.05, 0.2]), 3) for _ in range(3)]},
        "members": members, "connect_timeout": 0.5,
        "late_timers": random.Random(seed * 7919 + 5).choice([0.0, 0.0, 0.0, 0.005, 0.05]),
    }
    ops = []
    if variant in ("churn", "faulty"):
        for i in range(nmem):
            if rng.random() < 0.4:
                t0 = round(0.3 + rng.random() * horizon, 6)
                ops.append({"t": t0, "op": "stop", "m": i})
                if rng.random() < 0.5:
                    ops.append({"t": round(t0 + 0.1 + rng.random(), 6), "op": "start", "m": i})
    for _ in range(rng.choice([0, 1, 2])):
        ops.append({"t": round(rng.random() * horizon, 6), "op": "append", "topic": rng.choice(names), "n": rng.randint(1, 4)})
    faults = []
    if variant in ("faulty", "churn"):
        for _ in range(rng.choice([0, 1, 2, 3, 5])):
            kind = rng.choice(["error", "error", "error", "silent", "cut_before", "cut_after", "delay", "move_coord", "meta_error",
                               "commit_error", "bounce", "cut_conns", "refuse"])
            if kind == "error":
                api = rng.choice([11, 11, 14, 14, 12, 12, 10, 13])
                codes = {11: [14, 15, 16, 25, 27, 23, 7, 999], 14: [14, 15, 16, 22, 25, 27, 7, 999], 12: [15, 16, 22, 25, 27, 7, 999],
                         10: [15, 14, 7, 999], 13: [16, 25, 999]}[api]
                faults.append({"api": api, "node": None, "nth": rng.randint(0, 6), "act": "error", "code": rng.choice(codes), "count": rng.choice([1, 1, 2, 4])})
            elif kind in ("silent", "cut_before", "cut_after"):
                faults.append({"api": rng.choice([11, 14, 12, 10, 3, 8, 9, 1]), "node": None, "nth": rng.randint(0, 6), "act": kind})
            elif kind == "delay":
                faults.append({"api": rng.choice([11, 14, 12]), "node": None, "nth": rng.randint(0, 5), "act": "delay",
                               "delay": round(rng.choice([0.05, timeout_ms / 1000.0 * 1.3]), 6)})
            elif kind == "move_coord" and nb > 1:
                faults.append({"t": round(rng.random() * horizon, 6), "act": "move_coordinator", "group": GROUP, "to": rng.randint(1, nb)})
            elif kind == "meta_error":
                faults.append({"api": 3, "node": None, "nth": rng.randint(0, 6), "act": rng.choice(["error", "cut_before", "silent"]), "code": rng.choice([5, 3]),
                               "count": rng.choice([1, 2])})
            elif kind == "commit_error":
                faults.append({"api": 8, "node": None, "nth": rng.randint(0, 4), "act": "error", "code": rng.choice([22, 25, 27, 14, 16, 999]), "count": rng.choice([1, 2])})
            elif kind == "bounce" and nb > 1:
                n = rng.randint(1, nb)
                t0 = round(rng.random() * horizon, 6)
                faults.append({"t": t0, "act": "broker_down", "node": n, "elect": True})
                faults.append({"t": round(t0 + rng.choice([0.1, 1.0]), 6), "act": "broker_up", "node": n})
            elif kind == "cut_conns":
                faults.append({"t": round(rng.random() * horizon, 6), "act": "cut_conns", "node": None})
            elif kind == "refuse":
                faults.append({"kind": "connect", "nth": rng.randint(0, 8), "what": rng.choice(["refused", "blackhole", "sync_fail"]), "count": rng.choice([1, 3])})
    if variant in ("faulty", "churn") and rng.random() < 0.3:
        # the leader's metadata lookup (between the join answer and its SyncGroup) fails: a rebalance is forced and the
        # metadata answers from then on carry a topic error for a while
        t_m = round(0.5 + rng.random() * 1.2, 6)
        phantoms.append({"name": "phm", "topics": names, "session_ms": 1500, "join_t": t_m, "end": rng.choice(["stay", "leave"]), "end_t": 3.0,
                         "join_delay": rng.choice([0.001, 0.02])})
        if rng.random() < 0.5:
            # (and a topic has grown shortly before: what the leader may still have cached is stale)
            faults.append({"t": round(max(0.1, t_m - 0.1 - rng.random() * 0.3), 6), "act": "add_partitions", "topic": rng.choice(names), "n": rng.randint(1, 2)})
        if rng.random() < 0.4:
            faults.append({"api": 3, "node": None, "nth": 0, "act": "error", "code": rng.choice([5, 3]), "count": rng.choice([1, 2, 4]), "from_t": round(t_m - 0.02, 6)})
            if len(names) > 1 and rng.random() < 0.6:
                # ... for one topic only (being created, leaderless): the other topics of the subscription are answered fine
                faults[-1]["only_topics"] = [rng.choice(names)]
        else:
            # no broker (nor the bootstrap host) answers metadata requests for a while: the lookup times out everywhere and fails outright
            faults.append({"api": 3, "node": None, "nth": 0, "act": "silent", "count": rng.choice([nb + 1, 2 * (nb + 1), 4 * (nb + 1)]), "from_t": round(t_m - 0.02, 6)})
            if rng.random() < 0.5:
                # ... beginning while the members' JoinGroups wait for a slow member: the outage hits the lookup the freshly
                # elected leader makes for its assignment, not the one every member makes before joining
                phantoms[-1]["join_delay"] = 0.5
                faults[-1]["from_t"] = round(t_m + 0.35, 6)
                for f_ in faults:
                    if f_.get("act") == "add_partitions":
                        f_["t"] = round(t_m + 0.25 + rng.random() * 0.08, 6)  # after the members' own pre-join lookups
            if rng.random() < 0.6:
                # quick client-side timeouts and patient sessions: the lookup has failed everywhere before the coordinator
                # gives up on the member, so whatever the leader does next still reaches it
                cfg["client"]["timeout_ms"] = 500
                for m_ in members:
                    m_["session_ms"] = 3000
    if variant in ("faulty", "churn") and nb > 1 and rng.random() < 0.3:
        # a broker - maybe the coordinator - is taken out of service for good: its requests time out, the coordinator has moved
        faults.append({"t": round(0.5 + rng.random() * 1.5, 6), "act": "retire_broker", "node": rng.randint(1, nb)})
    if variant in ("churn", "assign", "overlap") and rng.random() < 0.4:
        # partitions are added to a subscribed topic between two generations led by the same member
        t_add = round(0.6 + rng.random() * 1.2, 6)
        faults.append({"t": t_add, "act": "add_partitions", "topic": rng.choice(names), "n": rng.randint(1, 3)})
        phantoms.append({"name": "pha", "topics": names, "session_ms": 1500, "join_t": round(t_add + 0.05 + rng.random() * 0.5, 6), "end": rng.choice(["stay", "leave"]),
                         "end_t": 3.0, "join_delay": rng.choice([0.001, 0.02])})
    if variant == "overlap":
        # several retriable errors from different sources overlapping one (slow) rejoin
        if not phantoms:
            phantoms.append({"name": "ph0", "topics": names, "session_ms": 1500, "join_t": round(0.5 + rng.random(), 6), "end": "stay", "end_t": 3.0,
                             "join_delay": rng.choice([0.2, 0.4])})
        for p in phantoms:
            p["join_delay"] = rng.choice([0.15, 0.3, 0.5])
        for _ in range(rng.randint(2, 5)):
            api = rng.choice([12, 12, 8, 11, 14])
            code = {12: [22, 27, 25, 16], 8: [22, 25, 27], 11: [27, 15, 16, 25], 14: [27, 22, 16]}[api]
            f = {"api": api, "node": None, "nth": rng.randint(0, 8), "act": "error", "code": rng.choice(code), "count": rng.choice([1, 2, 3])}
            if rng.random() < 0.6:
                f["delay"] = round(rng.choice([0.05, 0.12, 0.25]), 6)
            faults.append(f)
    if variant == "stopfault":
        # stop() of a member whose consumers need time to commit, while its heartbeats fail or the group rebalances:
        # the window between "consumers told to shut down" and "coordinator stopping"
        for t in topics:
            t["msgs"] = rng.choice([2, 5])
        for m in members:
            m["every_n"] = rng.choice([0, 0, 3])
            m["every_ms"] = rng.choice([0, 0, 500])
            m["hb_ms"] = rng.choice([50, 100])
        i = rng.randrange(nmem)
        t0 = round(0.8 + rng.random() * 1.2, 6)
        if rng.random() < 0.3:
            # ... or stop of the member right after it has been told that it leads the new generation
            ops.append({"t": t0, "op": "stop", "m": i, "on_leader_join": rng.choice([1, 2, 2]), "delay": rng.choice([0.0005, 0.002, 0.006])})
        else:
            ops.append({"t": t0, "op": "stop", "m": i})
        if rng.random() < 0.5:
            ops.append({"t": round(t0 + 0.3 + rng.random(), 6), "op": "start", "m": i})
        if rng.random() < 0.8:
            members[i]["every_n"] = members[i]["every_ms"] = 0  # only shutdown commits
        if rng.random() < 0.8:
            for tn in members[i]["topics"]:
                ops.append({"t": round(t0 - rng.choice([0.03, 0.08, 0.2]), 6), "op": "append", "topic": tn, "n": rng.randint(1, 3), "all": True})
        slow = rng.choice(["delay", "delay", "delay", "delay", "cut_before", "silent", "error"])
        for nth in range(0, rng.randint(1, 3)):
            f = {"api": 8, "node": None, "nth": nth, "act": slow, "from_t": round(t0 - 0.01, 6)}
            if slow == "delay":
                f["delay"] = round(rng.choice([0.3, 0.5, 0.8]), 6)
            if slow == "error":
                f.update(code=rng.choice([14, 15, 16, 7]), count=rng.choice([1, 2]))
            faults.append(f)
        how = rng.choice(["hb_error", "hb_silent", "phantom", "hb_error"])
        hb_from = round(t0 - 0.1 + rng.random() * 0.3, 6)
        if how == "hb_error":
            faults.append({"api": 12, "node": None, "nth": 0, "act": "error", "code": rng.choice([27, 25, 22, 16, 15]), "count": rng.choice([1, 3, 20]), "from_t": hb_from})
        elif how == "hb_silent":
            faults.append({"api": 12, "node": None, "nth": 0, "act": "silent", "count": rng.choice([1, 3]), "from_t": hb_from})
        else:
            phantoms.append({"name": "phs", "topics": names, "session_ms": 1500, "join_t": round(t0 - 0.15 + rng.random() * 0.4, 6), "end": "stay", "end_t": 3.5,
                             "join_delay": rng.choice([0.02, 0.2])})
    for f in faults:
        if f.get("api") == 3 and f.get("act") == "silent" and "from_t" in f:
            # the fault phase lasts until the unanswered lookups have timed out on every broker and the bootstrap host
            f["hold"] = round((nb + 1) * cfg["client"]["timeout_ms"] / 1000.0 * 1.2 + 0.3, 6)
    t_end = max([horizon] + [f["t"] for f in faults if "t" in f] + [o["t"] for o in ops] + [p["end_t"] for p in phantoms] + [p["join_t"] for p in phantoms] +
                [f["from_t"] + f.get("hold", 0.0) for f in faults if "from_t" in f])
    if not same_subs and len(names) > 1 and rng.random() < 0.3:
        # a subscription list that names a topic twice (topics=base + extra is all it takes): still the same subscription
        short = [m for m in members if len(set(m["topics"])) < len(names)]
        if short:
            m = rng.choice(short)
            m["topics"] = list(m["topics"]) + [rng.choice(m["topics"]) for _ in range(len(names) - len(m["topics"]))]
    for o in ops:
        if o["op"] == "stop" and "on_leader_join" not in o and rng.random() < 0.2:
            o["in_proc"] = True  # issued from inside the member's next processor call
    plan = {"family": FAMILY, "seed": seed, "tier": tier, "cfg": cfg, "ops": ops, "faults": faults, "phantoms": phantoms,
            "t_faults_end": round(t_end + 0.05, 6)}
    return plan


def plans_for(seed, tier):
    return [gen_plan(seed, tier)]


def run_plan(plan):
    w = World(plan, max_events=250000)
    try:
        return _run(w, plan)
    finally:
        w.restore_modules()


def _run(w, plan):
    from afkak._group import ConsumerGroup
    from afkak.common import RestartError, RestopError

    cfg = plan["cfg"]
    sim, res, net, cl = w.sim, w.res, w.net, w.cluster
    gc = GroupCoordinator(cl)
    cl.group_handler = gc
    # pre-populate logs
    for t in cfg["topics"]:
        for pid, part in cl.topics[t["name"]].partitions.items():
            for i in range(t["msgs"]):
                part.append([(b"k%d" % i, b"%s/%d#%d" % (t["name"].encode(), pid, i), None)], 0, False, 0)
    connect_rules = [f for f in plan["faults"] if f.get("kind") == "connect"]

    def connect_rule(att):
        for f in connect_rules:
            if f["nth"] <= att["n"] < f["nth"] + f.get("count", 1):
                return {"kind": f["what"]}
        return None

    if connect_rules:
        net.connect_rules.append(connect_rule)

    class M(object):
        pass

    members = []
    for i, mc in enumerate(cfg["members"]):
        m = M()
        m.i = i
        m.cfg = mc
        m.pid = "m%d" % i
        m.client = w.make_client(m.pid)
        m.obs = Observed(m.client, sim, m.pid)
        m.cg = None
        m.runs = []  # each start..stop: dict
        m.procs = []
        m.pending_proc = 0
        m.coord_calls = []  # join/sync/heartbeat/leave API records
        m.obs.hooks.append(lambda kind, rec, m=m: api_hook(m, kind, rec))
        members.append(m)

    def api_hook(m, kind, rec):
        if kind != "call":
            return
        run = m.runs[-1] if m.runs else None
        rec["run"] = run
        if rec["name"] == "_send_request_to_coordinator":
            p = rec["kw"].get("payload") if "payload" in rec["kw"] else rec["args"][1]
            rec["ptype"] = type(p).__name__.strip("_").replace("Request", "")
            rec["payload"] = p
            m.coord_calls.append(rec)
            if rec["ptype"] == "JoinGroup":
                # generation fencing: at the instant a JoinGroup is issued the member runs no partition consumer
                cg = m.cg
                running = []
                try:
                    for topic, lst in cg.consumers.items():
                        for c in lst:
                            running.append((topic, c.partition))
                except Exception:
                    pass
                res.oblige("C16")
                if running:
                    res.violate("C16", "C16:join-issued-while-consumers-running", "member %s issued JoinGroup with consumers %r still registered" % (m.pid, running[:4]), sim)
                rec["live_consumers_at_join"] = [c for c in m.all_consumers if _is_running(c)]
                if rec["live_consumers_at_join"]:
                    res.violate("C16", "C16:consumer-outlives-generation", "member %s issued JoinGroup while %d partition consumers of the previous generation were still started" % (
                        m.pid, len(rec["live_consumers_at_join"])), sim)
            if run is not None and run.get("stop_fired"):
                res.violate("C16", "C16:group-request-after-stop:%s" % rec["ptype"], "member %s sent %s after its stop() Deferred had fired" % (m.pid, rec["ptype"]), sim)
            elif run is not None and run.get("stop_called") and rec["ptype"] in ("JoinGroup", "SyncGroup"):
                # a member that is leaving does not (re)join: commits, heartbeats that keep the commits valid and the leave
                # are all that may still go out while stop() waits for its consumers
                res.violate("C16", "C16:join-or-sync-issued-while-stopping:%s" % rec["ptype"], "member %s sent %s after stop() had been called" % (m.pid, rec["ptype"]), sim)

    def _is_running(c):
        try:
            return c._start_d is not None
        except AttributeError:
            return False

    def make_processor(m):
        def processor(consumer, msgs):
            rec = {"m": m.i, "topic": consumer.topic, "partition": consumer.partition, "offsets": [x.offset for x in msgs],
                   "seq": len(sim.log), "t": sim.now, "gen": consumer.commit_generation_id, "member": consumer.commit_consumer_id}
            m.procs.append(rec)
            sim.record("gproc", m.i, consumer.topic, consumer.partition, msgs[0].offset, msgs[-1].offset)
            sim.mark("gproc", m.pid)
            if consumer not in m.all_consumers:
                m.all_consumers.append(consumer)
            run = m.runs[-1] if m.runs else None
            if run is not None and run.get("stop_fired"):
                res.violate("C16", "C16:processor-after-stop", "member %s processed %s/%d after stop() had completed" % (m.pid, consumer.topic, consumer.partition), sim)
            if getattr(m, "armed_stop", False):
                # the application stops the group member from inside its processor
                m.armed_stop = False
                res.probe("group_stop_from_inside_a_processor")
                stop_member(m)
            if m.cfg["proc_delay"]:
                from twisted.internet.defer import Deferred
                d = Deferred()
                sim.after(m.cfg["proc_delay"], lambda: (not d.called) and d.callback(None))
                return d
            return None
        return processor

    def start_member(m):
        if m.cg is not None and m.runs and not m.runs[-1]["ended"]:
            return
        mc = m.cfg
        kw = dict(buffer_size=mc["buffer_size"], fetch_max_wait_time=10, fetch_size_bytes=1, request_retry_init_delay=0.02, request_retry_max_delay=0.3)
        if mc["every_n"] is not None:
            kw["auto_commit_every_n"] = mc["every_n"]
            kw["auto_commit_every_ms"] = mc["every_ms"]
        m.all_consumers = getattr(m, "all_consumers", [])
        m.cg = ConsumerGroup(m.obs, GROUP, list(mc["topics"]), make_processor(m), consumer_kwargs=kw, session_timeout_ms=mc["session_ms"],
                             heartbeat_interval_ms=mc["hb_ms"], initial_backoff_ms=mc["initial_backoff_ms"], retry_backoff_ms=mc["retry_backoff_ms"],
                             fatal_backoff_ms=mc["fatal_backoff_ms"])
        # observe consumers as they are created (public attribute `consumers`)
        run = {"t": sim.now, "seq": len(sim.log), "ended": False, "stop_called": False, "stop_fired": False, "start_w": None}
        m.runs.append(run)
        sim.record("op", "gstart", m.i)
        sim.mark("op", "gstart")
        try:
            d = m.cg.start()
        except RestartError:
            m.runs.pop()
            return
        run["start_w"] = watch(d, "gstart#%d.%d" % (m.i, len(m.runs)), sim, lambda wd, run=run: run.__setitem__("start_fire_seq", wd.seq), keep_failure=True)

    def stop_member(m):
        if not m.runs or m.runs[-1]["stop_called"] or m.runs[-1]["ended"]:
            return
        run = m.runs[-1]
        run["stop_called"] = True
        run["stop_seq"] = len(sim.log)
        sim.record("op", "gstop", m.i)
        sim.mark("op", "gstop")
        try:
            d = m.cg.stop()
        except RestopError:
            run["ended"] = True
            return

        def fired(wd):
            run["stop_fired"] = True
            run["ended"] = True
            run["stop_fire_seq"] = wd.seq

        run["stop_w"] = watch(d, "gstop#%d" % m.i, sim, fired, keep_failure=True)

    phantoms = {}

    def do_op(o):
        k = o["op"]
        if k == "stop":
            if o["m"] < len(members):
                if o.get("in_proc"):
                    members[o["m"]].armed_stop = True
                else:
                    stop_member(members[o["m"]])
        elif k == "start":
            if o["m"] < len(members):
                start_member(members[o["m"]])
        elif k == "append":
            t = cl.topics[o["topic"]]
            for pid_ in (sorted(t.partitions) if o.get("all") else sorted(t.partitions)[:1]):
                part = t.partitions[pid_]
                part.append([(b"ka", b"%s+%d" % (o["topic"].encode(), part.leo), None) for _ in range(o["n"])], 0, False, 0)
                cl._wake(part)
        elif k == "ph_join":
            ph = Phantom(o["name"], o["topics"], o["session_ms"], o["join_delay"])
            phantoms[o["name"]] = ph
            gc.phantom_join(GROUP, ph)
        elif k == "ph_leave":
            if o["name"] in phantoms:
                gc.phantom_leave(GROUP, phantoms[o["name"]])
        elif k == "ph_silent":
            if o["name"] in phantoms:
                gc.phantom_silence(GROUP, phantoms[o["name"]])
        else:
            raise HarnessError("op %r" % (k,))

    for m in members:
        sim.at(m.cfg["start_t"], start_member, m)
    leader_ops = {}
    for o in plan["ops"]:
        if "on_leader_join" in o:
            leader_ops.setdefault(o["m"], []).append(dict(o, left=o["on_leader_join"]))
        else:
            sim.at(o["t"], do_op, o)

    def on_join_answer(pid, is_leader):
        if not is_leader or pid is None:
            return
        for i_, m_ in enumerate(members):
            if m_.pid == pid:
                for o in leader_ops.get(i_, []):
                    o["left"] -= 1
                    if o["left"] == 0:
                        # lands while the freshly elected leader loads the partition lists for its assignment
                        sim.after(o["delay"], do_op, o)

    gc.on_join_answer = on_join_answer
    for p in plan["phantoms"]:
        sim.at(p["join_t"], do_op, {"op": "ph_join", "name": p["name"], "topics": p["topics"], "session_ms": p["session_ms"], "join_delay": p["join_delay"]})
        if p["end"] == "leave":
            sim.at(max(p["end_t"], p["join_t"] + 0.01), do_op, {"op": "ph_leave", "name": p["name"]})
        elif p["end"] == "silent":
            sim.at(max(p["end_t"], p["join_t"] + 0.01), do_op, {"op": "ph_silent", "name": p["name"]})

    # ---- online: what each member runs right after a SyncGroup answer was delivered to it ----
    sync_checked = set()

    def after_event():
        for e in cl.reqlog[-8:]:
            if e["key"] != kwire.SYNC_GROUP or e["seq"] in sync_checked or e.get("delivered_seq") is None or "sync_answer" not in e:
                continue
            if e.get("act") in ("garbage", "cut_mid"):
                sync_checked.add(e["seq"])
                continue
            sync_checked.add(e["seq"])
            m = next((x for x in members if x.pid == e["pid"]), None)
            if m is None or m.cg is None:
                continue
            try:
                handed = kwire.decode_struct(kwire.ASSIGNMENT, e["sync_answer"]["assignment"]) if e["sync_answer"]["assignment"] else {"partitions": []}
            except kwire.WireError:
                continue
            want = set((tp["topic"], p) for tp in handed["partitions"] for p in tp["partitions"])
            got = set()
            try:
                for topic, lst in m.cg.consumers.items():
                    for c in lst:
                        got.add((topic, c.partition))
                        if c not in m.all_consumers:
                            m.all_consumers.append(c)
            except Exception:
                continue
            run = m.runs[-1] if m.runs else None
            if run is None or run["stop_called"]:
                continue
            # the member may have been told to rejoin in the same instant; judge only when it considers itself joined
            res.oblige("C15")
            if got != want and m.cg._state == "[joined]" if hasattr(m.cg, "_state") else got != want:
                res.violate("C15", "C15:member-runs-other-partitions-than-handed", "member %s was handed %r and runs %r" % (m.pid, sorted(want)[:6], sorted(got)[:6]), sim)

    sim.after_event.append(after_event)

    def run_until(t):
        try:
            sim.run(until=t)
        except HarnessError as e:
            res.harness_error = repr(e)

    run_until(plan["t_faults_end"])
    w.heal()
    t_heal = sim.now
    B = 150.0

    def settled():
        g = cl.groups.get(GROUP)
        if g is None:
            return False
        for m in members:
            if not m.runs or m.runs[-1]["stop_called"] or (m.runs[-1]["start_w"] and m.runs[-1]["start_w"].fires):
                continue
            if g.state != STABLE or not any(x.pid == m.pid for x in g.members.values()):
                return False
        return sim.now > t_heal + 3.0

    while sim.now < t_heal + B and not sim.overrun and not sim.livelock and res.harness_error is None:
        run_until(sim.now + 2.0)
        if settled():
            run_until(sim.now + 3.0)
            if settled():
                break
    t_judge = sim.now
    g = cl.groups.get(GROUP)
    # ---- C17: bounded liveness ----
    for m in members:
        if not m.runs:
            continue
        run = m.runs[-1]
        if run["stop_called"] or (run["start_w"] is not None and run["start_w"].fires):
            continue
        res.oblige("C17")
        mine = [x for x in g.members.values() if x.pid == m.pid] if g else []
        if g is None or g.state != STABLE or not mine:
            pend = [(dc.sim_creator, dc.sim_fname) for dc in w.reactors[m.pid].pending()]
            open_calls = [c["name"] for c in m.obs.calls if not c["done"]]
            idle = not open_calls and not [p for p in pend if not p[0].endswith(":loop")]
            state = getattr(m.cg, "_state", "?")
            res.violate("C17", "C17:not-a-stable-member-after-faults-ended:%s" % ("idle" if idle else "busy"),
                        "member %s is not in a stable generation %.0f s after the last fault (group state %s, member state %s, open calls %r, timers %r)" % (
                            m.pid, t_judge - t_heal, g.state if g else None, state, open_calls[:3], pend[:4]))
            continue
        # its partitions are being fetched
        try:
            handed = kwire.decode_struct(kwire.ASSIGNMENT, mine[0].assignment) if mine[0].assignment else {"partitions": []}
        except kwire.WireError:
            handed = {"partitions": []}
        want = set((tp["topic"], p) for tp in handed["partitions"] for p in tp["partitions"])
        recent = set()
        for e in cl.reqlog:
            if e["pid"] == m.pid and e["key"] == kwire.FETCH and e["t"] >= t_judge - 3.0 and e.get("body"):
                for t in e["body"]["topics"]:
                    for p in t["partitions"]:
                        recent.add((t["name"], p["partition"]))
        missing = want - recent
        if missing:
            res.violate("C17", "C17:assigned-partitions-not-consumed", "member %s is stable but does not fetch %r" % (m.pid, sorted(missing)[:4]))
        else:
            res.probe("member_stable_and_fetching")
    # ---- final stop ----
    for m in members:
        sim.at(sim.now + 0.001, stop_member, m)
    run_until(sim.now + 80.0)
    for m in members:
        sim.at(sim.now + 0.001, lambda m=m: watch(m.client.close(), "close#%d" % m.i, sim))
    run_until(sim.now + 50.0)
    if res.harness_error is None and sim.harness_errors:
        res.harness_error = sim.harness_errors[0]
    _oracles(w, plan, res, members, gc, g)
    return w.finish()


def _oracles(w, plan, res, members, gc, g):
    from afkak.common import OFFSET_COMMITTED
    sim, cl, net = w.sim, w.cluster, w.net
    # ---------------- C15: every generation led by a real member ----------------
    seen = {}
    if g is not None:
        for rec in g.history:
            if not rec.get("real_leader") or rec["assignments"] is None:
                continue
            subs = rec["subscriptions"]
            if any(v is None for v in subs.values()):
                continue
            res.oblige("C15")
            assigned = {}
            bad = None
            for mid, raw in rec["assignments"].items():
                try:
                    a = kwire.decode_struct(kwire.ASSIGNMENT, raw)
                except kwire.WireError as e:
                    bad = "assignment for %s does not parse: %s" % (mid, e)
                    break
                for tp in a["partitions"]:
                    for p in tp["partitions"]:
                        assigned.setdefault((tp["topic"], p), []).append(mid)
            if bad:
                res.violate("C15", "C15:assignment-does-not-parse", bad)
                continue
            all_parts = set()
            for mid, ts in subs.items():
                for t in ts:
                    for p in rec["partitions"].get(t, []):
                        all_parts.add((t, p))
            for tp in sorted(all_parts):
                owners = assigned.get(tp, [])
                if len(owners) != 1:
                    res.violate("C15", "C15:partition-assigned-%s" % ("to-nobody" if not owners else "twice"),
                                "generation %d: %s/%d assigned to %r (members %r)" % (rec["generation"], tp[0], tp[1], owners, rec["members"]))
                    break
                if tp[0] not in subs.get(owners[0], []):
                    res.violate("C15", "C15:partition-assigned-to-non-subscriber", "generation %d: %s/%d given to %s" % (rec["generation"], tp[0], tp[1], owners[0]))
                    break
            # partitions created while the leader was working (after the generation began, before its SyncGroup) may or may
            # not be in the metadata it loaded: those are allowed, not required
            allowed = set(all_parts)
            for mid, ts in subs.items():
                for t in ts:
                    for p in rec.get("partitions_at_sync", {}).get(t, []):
                        allowed.add((t, p))
            extra = set(assigned) - allowed
            if extra:
                res.violate("C15", "C15:unknown-partition-assigned", "generation %d: %r" % (rec["generation"], sorted(extra)[:4]))
            if len(set(tuple(sorted(v)) for v in subs.values())) == 1:
                counts = {mid: 0 for mid in subs}
                for tp, owners in assigned.items():
                    for o in owners:
                        counts[o] = counts.get(o, 0) + 1
                if counts and max(counts.values()) - min(counts.values()) > 1:
                    res.violate("C15", "C15:unbalanced-with-identical-subscriptions", "generation %d: %r" % (rec["generation"], counts))
            key = (tuple(sorted(rec["members"])), tuple(sorted((k, tuple(sorted(v))) for k, v in subs.items())),
                   tuple(sorted((t, tuple(ps)) for t, ps in rec["partitions"].items())),
                   # (partitions created while a leader was working are in one generation's input and not in another's)
                   tuple(sorted(assigned)))
            norm = tuple(sorted((tp, tuple(o)) for tp, o in assigned.items()))
            if key in seen and seen[key][0] != norm:
                res.violate("C15", "C15:assignment-depends-on-listing-order", "generations %d and %d list the same members %r / %r and differ" % (
                    seen[key][1], rec["generation"], seen[key][2], rec["listing"]))
            seen.setdefault(key, (norm, rec["generation"], rec["listing"]))
            if rec["listing"] and rec["listing"] != sorted(rec["listing"]):
                res.probe("leader_saw_permuted_listing")
    # ---------------- C16 ----------------
    join_answers = {}  # pid -> list of (delivered_seq, generation, member_id)
    sync_ok = {}
    for e in cl.reqlog:
        if e.get("delivered_seq") is None or e.get("act") in ("garbage",):
            continue
        if e["key"] == kwire.JOIN_GROUP and "join_answer" in e:
            join_answers.setdefault(e["pid"], []).append((e["delivered_seq"], e["join_answer"]["generation"], e["join_answer"]["member"]))
        if e["key"] == kwire.SYNC_GROUP and "sync_answer" in e:
            sync_ok.setdefault(e["pid"], []).append((e["delivered_seq"], e["sync_answer"]["generation"]))
    for m in members:
        # at most one join/sync exchange in flight; heartbeats only between a sync success and the next rejoin
        open_js = 0
        evs = []
        for c in m.coord_calls:
            if c["ptype"] in ("JoinGroup", "SyncGroup"):
                evs.append((c["seq"], 1, c))
                if c["done"]:
                    evs.append((c["seq_done"], -1, c))
        evs.sort(key=lambda x: (x[0], x[1]))
        for _q, d, c in evs:
            open_js += d
            if open_js > 1:
                res.violate("C16", "C16:two-join-sync-exchanges-in-flight", "member %s" % m.pid)
                break
        last_sync_ok = None
        exchange_open = False
        for c in sorted(m.coord_calls, key=lambda c: c["seq"]):
            if c["ptype"] == "JoinGroup":
                exchange_open = True
                last_sync_ok = None
            elif c["ptype"] == "SyncGroup":
                if c["done"] and c["ok"] and getattr(c["result"], "error", 1) == 0:
                    pass
            elif c["ptype"] == "Heartbeat":
                res.oblige("C16")
                # a heartbeat needs a SyncGroup success since the last JoinGroup was issued
                js = [x for x in m.coord_calls if x["ptype"] in ("JoinGroup", "SyncGroup") and x["seq"] < c["seq"]]
                if not js or js[-1]["ptype"] != "SyncGroup" or not (js[-1]["done"] and js[-1]["ok"] and js[-1]["seq_done"] <= c["seq"]):
                    res.violate("C16", "C16:heartbeat-outside-stable-membership", "member %s sent a heartbeat at %.4f without a completed SyncGroup since its last JoinGroup" % (m.pid, c["t"]))
                    break
        # fetches / processor calls / commits only between the sync answer and the next JoinGroup
        joins = sorted(c["seq"] for c in m.coord_calls if c["ptype"] == "JoinGroup")
        syncs_done = sorted(c["seq_done"] for c in m.coord_calls if c["ptype"] == "SyncGroup" and c["done"] and c["ok"])
        import bisect

        def in_window(seq):
            """True iff seq lies after a successful sync and before the next JoinGroup."""
            i = bisect.bisect_right(syncs_done, seq) - 1
            if i < 0:
                return False
            j = bisect.bisect_right(joins, syncs_done[i])
            return j >= len(joins) or joins[j] > seq

        for c in m.obs.calls:
            if c["name"] == "send_fetch_request":
                res.oblige("C16")
                if not in_window(c["seq"]):
                    pl = c["args"][0][0]
                    res.violate("C16", "C16:fetch-outside-its-generation", "member %s fetched %s/%d at %.4f outside a generation it had synced" % (m.pid, pl.topic, pl.partition, c["t"]))
                    break
        for p in m.procs:
            if not in_window(p["seq"]):
                res.violate("C16", "C16:processing-outside-its-generation", "member %s processed %s/%d at %.4f while (re)joining" % (m.pid, p["topic"], p["partition"], p["t"]))
                break
        # commits carry the generation and member id of the join answer in force when they were issued
        ja = join_answers.get(m.pid, [])
        for c in m.obs.calls:
            if c["name"] != "send_offset_commit_request":
                continue
            res.oblige("C16")
            gen = c["kw"].get("group_generation_id")
            mid = c["kw"].get("consumer_id")
            prior = [x for x in ja if x[0] <= c["seq"]]
            if not prior:
                res.violate("C16", "C16:commit-before-any-join-answer", "member %s committed with generation %r" % (m.pid, gen))
                break
            if (gen, mid) != (prior[-1][1], prior[-1][2]):
                # a consumer created under an earlier generation may legitimately still be committing while being shut
                # down for the next join (commit happens before the JoinGroup is issued): compare with the answer in force
                # when the *most recent JoinGroup before this commit* had been answered
                if not any((gen, mid) == (x[1], x[2]) for x in prior):
                    res.violate("C16", "C16:commit-with-foreign-generation", "member %s committed with generation %r / member %r, join answers so far %r" % (
                        m.pid, gen, mid, [(x[1], x[2]) for x in prior][-3:]))
                    break
        # each new partition consumer starts from the group's committed position
        for c in m.obs.calls:
            if c["name"] == "send_offset_fetch_request":
                res.probe("consumer_started_from_committed")
        for run in m.runs:
            if run.get("stop_called") and not run.get("stop_fired"):
                res.violate("C17", "C17:stop-never-completed", "member %s: the Deferred of stop() never fired" % m.pid)
    for where, etype, msg, frames in sim.uncaught:
        if etype == "AlreadyCalledError":
            res.violate("C16", "C16:second-fire-attempt", "%s %r" % (where, frames))
    w.check_wire("C04")
    faults = set(net.fault_counts)
    inflight = any(k.startswith("rule_") or k in ("rebalance", "coordinator_move", "broker_down", "cut_conns", "session_expired", "phantom_join") for k in faults)
    for p in ("C15", "C16", "C17", "C04"):
        res.nontrivial[p] = bool(res.obligations.get(p)) and inflight
