"""Observation helpers that never perturb control flow or draw randomness."""
import struct

from twisted.python.failure import Failure


class RunResult(object):
    """Outcome of one simulated run (plain data, picklable)."""

    def __init__(self):
        self.violations = []  # dicts: prop, sig, msg, t, seq
        self.notes = []  # harness doubts (never verdicts)
        self.digest = None
        self.order_digest = None
        self.events = 0
        self.sim_time = 0.0
        self.faults = {}
        self.probes = {}
        self.states = set()
        self.nontrivial = {}  # prop -> bool: oracle evaluated a non-vacuous obligation under an in-flight fault
        self.obligations = {}  # prop -> count of non-vacuous obligations evaluated
        self.harness_error = None
        self.overrun = False
        self.uncaught = []

    def violate(self, prop, sig, msg, sim=None):
        v = {"prop": prop, "sig": sig, "msg": msg}
        if sim is not None:
            v["t"] = round(sim.now, 9)
            v["seq"] = len(sim.log)
        # keep the first occurrence of each signature only: later ones are usually consequences
        for o in self.violations:
            if o["prop"] == prop and o["sig"] == sig:
                return
        self.violations.append(v)

    def probe(self, name, n=1):
        self.probes[name] = self.probes.get(name, 0) + n

    def oblige(self, prop, n=1):
        self.obligations[prop] = self.obligations.get(prop, 0) + n

    def to_dict(self):
        return {
            "violations": self.violations,
            "notes": self.notes[:20],
            "digest": self.digest,
            "order_digest": self.order_digest,
            "events": self.events,
            "sim_time": self.sim_time,
            "faults": self.faults,
            "probes": self.probes,
            "states": sorted(self.states),
            "nontrivial": self.nontrivial,
            "obligations": self.obligations,
            "harness_error": self.harness_error,
            "overrun": self.overrun,
            "uncaught": self.uncaught[:10],
        }


class Watched(object):
    """Records how (and how often) a Deferred handed to the application fires."""

    # (no __slots__: scenarios attach their own bookkeeping)

    def __init__(self, name):
        self.name = name
        self.fires = 0
        self.ok = None
        self.value = None
        self.err = None
        self.t = None
        self.seq = None
        self.failure = None


def watch(d, name, sim, on_fire=None, keep_failure=False):
    """The harness is the application: it is the final consumer of ``d``; failures are swallowed here."""
    w = Watched(name)

    def cb(result):
        w.fires += 1
        w.t = sim.now
        w.seq = len(sim.log)
        if isinstance(result, Failure):
            w.ok = False
            w.err = result.type.__name__
            if keep_failure:
                w.failure = result
            w.value = result.value
            sim.record("fire", name, "err", w.err)
        else:
            w.ok = True
            w.value = result
            sim.record("fire", name, "ok", _brief(result))
        sim.mark("fire", name.split("#")[0])
        if on_fire is not None:
            try:
                on_fire(w)
            except Exception as e:  # a bug of the harness must never be swallowed by the Deferred
                import traceback
                sim.harness_errors.append("on_fire(%s): %r %s" % (name, e, traceback.format_exc()[-600:]))
        return None

    d.addBoth(cb)
    return w


def _brief(v):
    if v is None:
        return "None"
    if isinstance(v, (bytes, bytearray)):
        return "bytes[%d]" % len(v)
    if isinstance(v, (int, float, bool, str)):
        return repr(v)[:60]
    if isinstance(v, (list, tuple)):
        return "%s[%d]" % (type(v).__name__, len(v))
    return type(v).__name__


def frames_of(stream, max_len=2 ** 31 - 1):
    """Split a byte stream into int32-length-prefixed frames.

    Returns (frames, consumed, oversize) where oversize is True if an announced length > max_len was met
    (framing stops there, as the receiver must)."""
    frames = []
    cur = 0
    n = len(stream)
    while n - cur >= 4:
        (ln,) = struct.unpack(">I", bytes(stream[cur:cur + 4]))
        if ln > max_len:
            return frames, cur, True
        if n - cur - 4 < ln:
            break
        frames.append(bytes(stream[cur + 4:cur + 4 + ln]))
        cur += 4 + ln
    return frames, cur, False
