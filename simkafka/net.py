"""In-process network: endpoints, transports, ordered reliable byte pipes with seeded segmentation.

TCP semantics are respected: inside one connection there is no loss, duplication or reordering.
Loss is a cut (RST/FIN) or a silent peer; reordering exists only across connections.
"""
from collections import deque

from twisted.internet import error as terror
from twisted.internet.address import IPv4Address
from twisted.internet.defer import Deferred
from twisted.python.failure import Failure

from .core import HarnessError

SEG_POLICIES = ("coalesce", "writes", "random", "byte", "prefix")


class Pipe(object):
    """One direction of a connection.  At most one delivery event is outstanding, so order is preserved
    even when same-instant events are shuffled."""

    def __init__(self, sim, rng, policy, lat, deliver, on_fin, name):
        self.sim = sim
        self.rng = rng
        self.policy = policy
        self.lat = lat  # (lo, hi)
        self.deliver = deliver
        self.on_fin = on_fin
        self.name = name
        self.chunks = deque()
        self.scheduled = False
        self.fin = False
        self.fin_done = False
        self.dead = False
        self.sent = 0  # bytes accepted
        self.delivered = 0  # bytes delivered to the far end
        self.limit = None  # absolute byte count after which on_limit fires (cut inside a frame)
        self.on_limit = None
        self.stall_until = 0.0

    def _latency(self):
        lo, hi = self.lat
        if hi <= 0:
            return 0.0
        return lo + self.rng.random() * (hi - lo)

    def write(self, data):
        if self.dead or self.fin or not data:
            return
        self.chunks.append(bytes(data))
        self.sent += len(data)
        self._kick()

    def close(self):
        """FIN after everything pending."""
        if self.dead or self.fin:
            return
        self.fin = True
        self._kick()

    def kill(self):
        self.dead = True
        self.chunks.clear()

    def _kick(self):
        if self.scheduled or self.dead:
            return
        if not self.chunks and not (self.fin and not self.fin_done):
            return
        self.scheduled = True
        t = max(self.sim.now + self._latency(), self.stall_until)
        self.sim.at(t, self._fire)

    def _take(self):
        pol = self.policy
        first = self.chunks[0]
        if pol == "coalesce":
            data = b"".join(self.chunks)
            self.chunks.clear()
            return data
        if pol == "writes":
            return self.chunks.popleft()
        if pol == "byte":
            # one byte at a time through the length prefix, the correlation id and a little beyond, then the
            # rest of that write in one piece (a whole 4 KiB reply byte by byte would only burn events)
            n = 1
            self._single = getattr(self, "_single", 0) + 1
            if self._single > 14:
                n = len(first)
                self._single = 0
        elif pol == "prefix":
            # cut inside the 4-byte length prefix first, then the rest of what is pending
            n = self.rng.randint(1, 3) if self.rng.random() < 0.5 else len(first)
        else:  # random
            total = sum(len(c) for c in self.chunks)
            n = self.rng.randint(1, total)
            if n > len(first):
                data = b"".join(self.chunks)
                self.chunks.clear()
                if n < len(data):
                    self.chunks.append(data[n:])
                    data = data[:n]
                return data
        if n >= len(first):
            self._single = 0
            return self.chunks.popleft()
        self.chunks[0] = first[n:]
        return first[:n]

    def _fire(self):
        self.scheduled = False
        if self.dead:
            return
        if self.sim.now < self.stall_until:
            self._kick()
            return
        if self.chunks:
            data = self._take()
            hit = False
            if self.limit is not None and self.delivered + len(data) >= self.limit:
                keep = self.limit - self.delivered
                data = data[:keep]
                hit = True
            self.delivered += len(data)
            if data:
                self.deliver(data)
            if hit and not self.dead:
                cb, self.on_limit, self.limit = self.on_limit, None, None
                cb()
                return
            self._kick()
            return
        if self.fin and not self.fin_done:
            self.fin_done = True
            self.on_fin()


class ClientTransport(object):
    """What afkak's protocol sees as ``self.transport``."""

    disconnecting = False
    disconnected = False

    def __init__(self, conn):
        self.conn = conn

    def write(self, data):
        c = self.conn
        if self.disconnected:
            return
        # (as twisted.internet.abstract.FileDescriptor: data written after loseConnection() but before the
        # connection has actually closed is still buffered and flushed before the close)
        if c.write_raises:
            c.write_raises -= 1
            c.net.fault("write_raises")
            raise terror.ConnectionLost("simulated write failure")
        c.net.sim.record("c_write", c.cid, len(data))
        c.client_written += len(data)
        c.client_writes.append((c.net.sim.now, bytes(data)))
        if c.net.after_close_pids.get(c.pid):
            c.net.sim.record("write_after_close", c.pid, c.cid, len(data))
            c.net.writes_after_close.append((c.pid, c.cid, len(data)))
        c.c2s.write(data)

    def writeSequence(self, seq):
        self.write(b"".join(seq))

    def loseConnection(self):
        c = self.conn
        if self.disconnected or self.disconnecting:
            return
        self.disconnecting = True
        c.net.sim.record("c_lose", c.cid)
        c.net.sim.mark("c_lose", c.label)
        c.client_closed_by = "client"
        c.reading = False
        lo, hi = c.net.close_lat
        d = lo + c.rng.random() * (hi - lo) if hi > 0 else 0.0
        c.net.sim.after(d, c._client_close_done)

    def abortConnection(self):
        c = self.conn
        if self.disconnected:
            return
        self.disconnecting = True
        c.reading = False
        c.client_closed_by = "client"
        c.net.sim.record("c_abort", c.cid)
        c.c2s.kill()
        c.s2c.kill()
        c.net.sim.after(0.0, c._client_lost, terror.ConnectionAborted())
        c.net.sim.after(c.c2s._latency(), c._server_lost, False)

    def getPeer(self):
        return IPv4Address("TCP", self.conn.host, self.conn.port)

    def getHost(self):
        return IPv4Address("TCP", "client-%s" % self.conn.pid, 40000 + self.conn.cid)

    def registerProducer(self, producer, streaming):
        pass

    def unregisterProducer(self):
        pass

    def setTcpNoDelay(self, enabled):
        pass

    def setTcpKeepAlive(self, enabled):
        pass

    def pauseProducing(self):
        pass

    def resumeProducing(self):
        pass

    def stopProducing(self):
        self.loseConnection()


class Conn(object):
    def __init__(self, net, cid, pid, host, port, proto, server, rng, seg_c2s, seg_s2c, label):
        self.net = net
        self.cid = cid
        self.pid = pid
        self.host = host
        self.port = port
        self.label = label  # stable name for interleaving digests: host:port#k
        self.proto = proto
        self.server = server  # handler object: data(conn, bytes), closed(conn, clean)
        self.rng = rng
        sim = net.sim
        self.c2s = Pipe(sim, rng, seg_c2s, net.lat, self._to_server, self._server_fin, "c2s%d" % cid)
        self.s2c = Pipe(sim, rng, seg_s2c, net.lat, self._to_client, self._client_fin, "s2c%d" % cid)
        self.transport = ClientTransport(self)
        self.reading = True
        self.client_alive = True  # process not killed
        self.client_lost = False
        self.server_lost = False
        self.client_closed_by = None
        self.client_written = 0
        self.client_writes = []
        self.client_received = bytearray()  # bytes handed to proto.dataReceived
        self.server_received = bytearray()
        self.server_sent = bytearray()
        self.write_raises = 0
        self.opened_at = sim.now
        self.lost_at = None
        self.lost_reason = None

    # ---- deliveries ----
    def _to_server(self, data):
        if self.server_lost:
            return
        self.server_received += data
        self.net.sim.record("s_recv", self.cid, len(data))
        self.net.sim.mark("s_recv", self.label)
        self.server.data(self, data)

    def _to_client(self, data):
        if not self.reading or self.client_lost or not self.client_alive:
            return
        self.client_received += data
        self.net.sim.record("c_recv", self.cid, len(data))
        self.net.sim.mark("c_recv", self.label)
        if self.net.on_client_data is not None:
            self.net.on_client_data(self, data, True)
        try:
            self.proto.dataReceived(data)
        except HarnessError:
            raise
        except Exception as e:
            # as tcp.Connection: the reactor logs it and drops the connection with that failure
            self.net.sim.sut_exception("dataReceived")
            self.reading = False
            self.c2s.kill()
            self.s2c.kill()
            self.client_closed_by = "exception"
            self.net.sim.after(0.0, self._client_lost, e)
            self.net.sim.after(self.c2s._latency(), self._server_lost, False)
        finally:
            if self.net.on_client_data is not None:
                self.net.on_client_data(self, data, False)

    def _server_fin(self):
        # client's FIN reached the server after all its bytes
        self._server_lost(True)

    def _client_fin(self):
        # server's FIN reached the client after all its bytes
        if self.client_closed_by is None:
            self.client_closed_by = "server"
        self._client_lost(terror.ConnectionDone())
        # the client side is gone; nothing more will be read by the server either
        self.c2s.kill()

    def _client_close_done(self):
        """The write buffer has drained: FIN goes out after everything written so far, the client side is gone."""
        if self.client_lost:
            return
        self.c2s.close()
        self._client_lost(terror.ConnectionDone())

    def _client_lost(self, exc):
        if self.client_lost:
            return
        self.client_lost = True
        self.reading = False
        self.transport.disconnected = True
        self.lost_at = self.net.sim.now
        self.lost_reason = type(exc).__name__
        self.net.sim.record("c_lost", self.cid, type(exc).__name__)
        self.net.sim.mark("c_lost", self.label)
        if not self.client_alive:
            return
        try:
            self.proto.connectionLost(Failure(exc))
        except HarnessError:
            raise
        except Exception:
            self.net.sim.sut_exception("connectionLost")
        if self.net.on_client_lost is not None:
            self.net.on_client_lost(self)

    def _server_lost(self, clean):
        if self.server_lost:
            return
        self.server_lost = True
        self.net.sim.record("s_lost", self.cid, clean)
        self.server.closed(self, clean)

    # ---- server-side API ----
    def send(self, data):
        if self.server_lost:
            return
        self.server_sent += data
        self.s2c.write(data)

    def close(self):
        """Server closes cleanly after flushing what it has sent."""
        if self.server_lost:
            return
        self._server_lost(True)
        self.s2c.close()

    def reset(self):
        """RST: in-flight bytes in both directions vanish."""
        self.net.sim.record("reset", self.cid)
        self.c2s.kill()
        self.s2c.kill()
        if not self.server_lost:
            self._server_lost(False)
        if self.client_closed_by is None:
            self.client_closed_by = "reset"
        self.net.sim.after(self.s2c._latency(), self._client_lost, terror.ConnectionLost())

    def cut_s2c_after(self, total_bytes, clean=False):
        """Cut the connection once ``total_bytes`` of the server->client stream have been delivered."""
        self.s2c.limit = total_bytes
        self.s2c.on_limit = (self._cut_clean if clean else self.reset)
        if self.s2c.delivered >= total_bytes:
            self.s2c.limit = None
            self.s2c.on_limit = None
            (self._cut_clean if clean else self.reset)()

    def _cut_clean(self):
        self.s2c.chunks.clear()
        self.close()

    def cut_c2s_after(self, total_bytes):
        self.c2s.limit = total_bytes
        self.c2s.on_limit = self.reset
        if self.c2s.delivered >= total_bytes:
            self.c2s.limit = None
            self.c2s.on_limit = None
            self.reset()

    def stall(self, direction, seconds):
        p = self.s2c if direction == "s2c" else self.c2s
        p.stall_until = max(p.stall_until, self.net.sim.now + seconds)


class SimEndpoint(object):
    def __init__(self, net, reactor, host, port):
        self.net = net
        self.reactor = reactor
        self.host = host
        self.port = port

    def __repr__(self):
        return "<SimEndpoint %s:%s>" % (self.host, self.port)

    def connect(self, factory):
        return self.net._connect(self.reactor, self.host, self.port, factory)


class SimNet(object):
    def __init__(self, sim, lat=(0.0005, 0.003), connect_timeout=30.0, seg=("coalesce", "coalesce"), close_lat=(0.0, 0.001)):
        self.sim = sim
        self.lat = lat
        self.close_lat = close_lat
        self.connect_timeout = connect_timeout
        self.seg = seg  # default (c2s, s2c) policies; a callable(cid, rng)->(p,p) may replace it
        self.listeners = {}  # (host, port) -> object with accept(conn_info) -> handler or None
        self.conns = []
        self.attempts = []  # dicts: t, pid, host, port, outcome
        self.connect_rules = []  # list of callables(attempt_dict) -> outcome dict or None
        self.fault_counts = {}
        self.on_client_data = None  # hook(conn, data, before:bool) for lock-step models
        self.on_client_lost = None
        self.on_connected = None  # hook(conn) right after the client side is up
        self.after_close_pids = {}  # pid -> True once the app called KafkaClient.close()
        self.writes_after_close = []
        self.connects_after_close = []
        self.dead_pids = set()
        self.aliases = {}  # (host, port) -> callable() -> (host, port): DNS-like names

    def fault(self, kind, n=1):
        self.fault_counts[kind] = self.fault_counts.get(kind, 0) + n

    def endpoint(self, reactor, host, port):
        return SimEndpoint(self, reactor, host, port)

    def listen(self, host, port, acceptor):
        self.listeners[(host, port)] = acceptor

    def unlisten(self, host, port):
        self.listeners.pop((host, port), None)

    def _connect(self, reactor, host, port, factory):
        sim = self.sim
        pid = getattr(reactor, "pid", "?")
        att = {"n": len(self.attempts), "t": sim.now, "pid": pid, "host": host, "port": port, "outcome": None,
               "cancelled": False, "seq": len(sim.log)}
        self.attempts.append(att)
        rng = sim.rng("net/connect/%s" % pid)
        decision = None
        for rule in self.connect_rules:
            decision = rule(att)
            if decision is not None:
                break
        if decision is None:
            decision = {"kind": "ok"}
        kind = decision["kind"]
        lo, hi = self.lat
        lat = decision.get("lat")
        if lat is None:
            # never zero: a peer that closes at once makes the real client reconnect at once, and with a
            # zero-time handshake that loop would spin forever inside one virtual instant
            lat = (lo + rng.random() * (hi - lo)) * 2 if hi > 0 else 0.0005
        att["kind"] = kind
        sim.record("connect", pid, host, port, kind)
        sim.mark("connect", "%s:%s" % (host, port))
        if self.after_close_pids.get(pid):
            self.connects_after_close.append((pid, host, port))
            sim.record("connect_after_close", pid, host, port)
        state = {"done": False}

        def cancel(d):
            att["cancelled"] = True
            sim.record("connect_cancel", pid, host, port)
            if kind == "ignore_cancel":
                # the race pinned by test_close_connecting_succeed: cancel() is too late.
                # Deferred.cancel() will errback CancelledError itself unless we fire first; an
                # endpoint that ignores cancellation simply does nothing here and later calls
                # callback(), which Deferred suppresses *only* if it already fired.  Emulate the real
                # race by completing the connection synchronously inside the canceller.
                self.fault("connect_ignores_cancel")
                finish_ok()
                return
            state["done"] = True
            att["outcome"] = "cancelled"
            d.errback(Failure(terror.ConnectingCancelledError(IPv4Address("TCP", host, port))))

        d = Deferred(cancel)

        def finish_ok():
            if state["done"]:
                return
            state["done"] = True
            if pid in self.dead_pids:
                att["outcome"] = "dead"
                return
            target = (host, port)
            if target in self.aliases:
                target = self.aliases[target]() or target
            acceptor = self.listeners.get(target)
            if acceptor is None:
                att["outcome"] = "refused"
                sim.record("connect_refused", pid, host, port)
                d.errback(Failure(terror.ConnectionRefusedError("no listener %s:%s" % (host, port))))
                return
            cid = len(self.conns)
            crng = sim.rng("net/conn/%d" % cid)
            seg = self.seg(cid, crng) if callable(self.seg) else self.seg
            k = sum(1 for c in self.conns if c.host == host and c.port == port and c.pid == pid)
            proto = factory.buildProtocol(IPv4Address("TCP", host, port))
            conn = Conn(self, cid, pid, host, port, proto, None, crng, seg[0], seg[1], "%s:%s:%s#%d" % (pid, host, port, k))
            handler = acceptor.accept(conn)
            if handler is None:
                att["outcome"] = "refused"
                d.errback(Failure(terror.ConnectionRefusedError("refused %s:%s" % (host, port))))
                return
            conn.server = handler
            self.conns.append(conn)
            att["outcome"] = "ok"
            att["cid"] = cid
            sim.record("connected", pid, host, port, cid)
            sim.mark("connected", conn.label)
            try:
                proto.makeConnection(conn.transport)
            except HarnessError:
                raise
            except Exception:
                sim.sut_exception("makeConnection")
            if self.on_connected is not None:
                self.on_connected(conn)
            d.callback(proto)

        def finish_fail(exc):
            if state["done"]:
                return
            state["done"] = True
            att["outcome"] = type(exc).__name__
            if pid in self.dead_pids:
                return
            sim.record("connect_failed", pid, host, port, type(exc).__name__)
            d.errback(Failure(exc))

        if kind == "sync_fail":
            # HostnameEndpoint.connect() for a host name that is not valid IDNA: an already-failed Deferred, no I/O
            self.fault("connect_sync_fail")
            state["done"] = True
            att["outcome"] = "ValueError"
            sim.record("connect_failed", pid, host, port, "ValueError")
            from twisted.internet.defer import fail
            return fail(Failure(ValueError("invalid hostname: %s (simulated)" % host)))
        if kind in ("ok", "ignore_cancel"):
            sim.after(lat, finish_ok)
        elif kind == "refused":
            self.fault("connect_refused")
            sim.after(lat, finish_fail, terror.ConnectionRefusedError("simulated refusal"))
        elif kind == "dns":
            self.fault("connect_dns")
            sim.after(lat, finish_fail, terror.DNSLookupError("simulated: no such host %s" % host))
        elif kind == "blackhole":
            self.fault("connect_blackhole")
            sim.after(decision.get("timeout", self.connect_timeout), finish_fail,
                      terror.TimeoutError("simulated connect timeout"))
        else:
            raise HarnessError("unknown connect outcome %r" % (kind,))
        return d

    def kill_pid(self, pid):
        """Process death: nothing is told to the dead process; peers see resets."""
        self.dead_pids.add(pid)
        for c in self.conns:
            if c.pid == pid and not c.client_lost:
                c.client_alive = False
                c.reading = False
                c.c2s.kill()
                c.s2c.kill()
                c.client_lost = True
                c.transport.disconnected = True
                self.sim.after(c.c2s._latency(), c._server_lost, False)

    def open_conns(self, pid=None):
        return [c for c in self.conns if not c.client_lost and (pid is None or c.pid == pid)]
