"""Group coordinator of the simulated cluster: the Kafka 0.9/0.10.0 state machine
(Empty, PreparingRebalance, AwaitingSync, Stable), session expiry, rebalance timeout = session timeout,
plus phantom members that live inside the coordinator (they join, sync, lead, leave or go silent).
"""
from collections import OrderedDict

from . import kwire
from .cluster import (E_COORD_LOAD, E_ILLEGAL_GENERATION, E_INCONSISTENT_PROTOCOL, E_INVALID_SESSION_TIMEOUT,
                      E_NOT_COORDINATOR, E_REBALANCE_IN_PROGRESS, E_UNKNOWN_MEMBER)

EMPTY, PREPARING, AWAITING_SYNC, STABLE = "Empty", "PreparingRebalance", "AwaitingSync", "Stable"


class Member(object):
    def __init__(self, mid, session_ms, protocols, ptype, phantom=None):
        self.id = mid
        self.session_ms = session_ms
        self.protocols = protocols  # list of (name, metadata)
        self.ptype = ptype
        self.join_pending = None  # (broker, st, entry, rule)
        self.sync_pending = None
        self.assignment = b""
        self.phantom = phantom
        self.deadline_tok = 0
        self.rejoined = False
        self.pid = None


class Group(object):
    def __init__(self, name):
        self.name = name
        self.state = EMPTY
        self.generation = 0
        self.protocol = None
        self.leader = None
        self.members = OrderedDict()
        self.rebalance_tok = 0
        self.next_member = 0
        self.history = []  # one record per completed join: generation, leader, members, subscriptions, assignments


class Phantom(object):
    """A member simulated inside the coordinator."""

    def __init__(self, name, topics, session_ms=2000, join_delay=0.005, assignor="roundrobin"):
        self.name = name
        self.topics = list(topics)
        self.session_ms = session_ms
        self.join_delay = join_delay
        self.assignor = assignor
        self.member_id = ""
        self.silent = False
        self.gone = False


class GroupCoordinator(object):
    def __init__(self, cluster, session_range=(10, 300000)):
        self.cl = cluster
        self.sim = cluster.sim
        self.session_range = session_range
        self.rng = cluster.sim.rng("groupcoord")
        self.log = []  # (t, logseq, group, event, details...)
        self.shuffle_listing = True
        self.on_join_answer = None  # hook(pid of the real member, is_leader) as its JoinGroup is answered

    def group(self, name):
        g = self.cl.groups.get(name)
        if g is None:
            g = self.cl.groups[name] = Group(name)
        return g

    def note(self, g, ev, *details):
        self.log.append((self.sim.now, len(self.sim.log), g.name, ev) + details)
        self.sim.record("grp", g.name, ev, *[d if isinstance(d, (int, str, type(None))) else str(d) for d in details])

    # ------------------------------------------------------------------------------------------
    def handle(self, broker, st, entry, rule):
        key = entry["key"]
        body = entry["body"]
        gname = body["group"]
        if rule is not None and rule["act"] == "error":
            self._respond_error(broker, st, entry, rule["code"], rule)
            return
        if self.cl.coordinator(gname) != broker.node:
            self._respond_error(broker, st, entry, E_NOT_COORDINATOR, rule)
            return
        g = self.group(gname)
        entry["pid_member"] = body.get("member")
        if key == kwire.JOIN_GROUP:
            self._join(g, broker, st, entry, rule)
        elif key == kwire.SYNC_GROUP:
            self._sync(g, broker, st, entry, rule)
        elif key == kwire.HEARTBEAT:
            self._heartbeat(g, broker, st, entry, rule)
        elif key == kwire.LEAVE_GROUP:
            self._leave(g, broker, st, entry, rule)

    def _respond_error(self, broker, st, entry, code, rule):
        key = entry["key"]
        if key == kwire.JOIN_GROUP:
            body = {"error": code, "generation": -1, "protocol": "", "leader": "", "member": entry["body"]["member"], "members": []}
        elif key == kwire.SYNC_GROUP:
            body = {"error": code, "assignment": b""}
        else:
            body = {"error": code}
        self.cl.respond(broker, st, entry, body, rule)

    def conn_closed(self, st):
        for g in self.cl.groups.values():
            for m in g.members.values():
                if m.join_pending is not None and m.join_pending[1] is st:
                    m.join_pending = None
                if m.sync_pending is not None and m.sync_pending[1] is st:
                    m.sync_pending = None

    # ---- session timers ------------------------------------------------------------------------
    def _touch(self, g, m):
        m.deadline_tok += 1
        tok = m.deadline_tok
        if m.phantom is not None and not m.phantom.silent:
            return
        self.sim.after(m.session_ms / 1000.0, self._expire, g, m, tok)

    def _expire(self, g, m, tok):
        if m.deadline_tok != tok or g.members.get(m.id) is not m:
            return
        if m.join_pending is not None or m.sync_pending is not None:
            # a member waiting for the rebalance to complete is kept alive
            self._touch(g, m)
            return
        self.note(g, "session_expired", m.id)
        self.cl.net.fault("session_expired")
        self._remove_member(g, m)

    def _remove_member(self, g, m):
        g.members.pop(m.id, None)
        if m.join_pending is not None:
            m.join_pending = None
        if g.state in (STABLE, AWAITING_SYNC):
            self._prepare_rebalance(g)
        elif g.state == PREPARING:
            self._maybe_complete_join(g)

    # ---- join ----------------------------------------------------------------------------------
    def _join(self, g, broker, st, entry, rule):
        b = entry["body"]
        mid = b["member"]
        protos = [(p["name"], p["metadata"]) for p in b["protocols"]]
        if not (self.session_range[0] <= b["session_timeout"] <= self.session_range[1]):
            self._respond_error(broker, st, entry, E_INVALID_SESSION_TIMEOUT, rule)
            return
        if mid and mid not in g.members:
            self._respond_error(broker, st, entry, E_UNKNOWN_MEMBER, rule)
            return
        if g.members:
            any_m = next(iter(g.members.values()))
            common = set(n for n, _ in protos)
            for m in g.members.values():
                if m.id != mid:
                    common &= set(n for n, _ in m.protocols)
            if b["protocol_type"] != any_m.ptype or not common:
                self._respond_error(broker, st, entry, E_INCONSISTENT_PROTOCOL, rule)
                return
        if not protos:
            self._respond_error(broker, st, entry, E_INCONSISTENT_PROTOCOL, rule)
            return
        pending = (broker, st, entry, rule)
        if not mid:
            g.next_member += 1
            mid = "%s-m%d" % (entry.get("client_id") or "c", g.next_member)
            m = Member(mid, b["session_timeout"], protos, b["protocol_type"])
            m.pid = entry["pid"]
            g.members[mid] = m
            self.note(g, "member_added", mid, entry["pid"])
            m.join_pending = pending
            self._touch(g, m)
            if g.state != PREPARING:
                self._prepare_rebalance(g)
            else:
                self._maybe_complete_join(g)
            return
        m = g.members[mid]
        m.session_ms = b["session_timeout"]
        self._touch(g, m)
        changed = m.protocols != protos
        m.protocols = protos
        if g.state == PREPARING:
            m.join_pending = pending
            self._maybe_complete_join(g)
        elif g.state == AWAITING_SYNC:
            if not changed:
                # a retried join from a member of the generation being formed
                self._answer_join(g, m, pending)
            else:
                m.join_pending = pending
                self._prepare_rebalance(g)
        else:  # STABLE / EMPTY
            if g.state == STABLE and not changed and mid != g.leader:
                self._answer_join(g, m, pending)
            else:
                m.join_pending = pending
                self._prepare_rebalance(g)

    def _prepare_rebalance(self, g):
        # (also when the group has just become stable and the answers are still going out one by one: a member whose
        # SyncGroup has not been answered yet is told to rejoin, it is never left waiting)
        if True:
            for m in list(g.members.values()):
                if m.sync_pending is not None:
                    br, st, entry, rule = m.sync_pending
                    m.sync_pending = None
                    self.cl.respond(br, st, entry, {"error": E_REBALANCE_IN_PROGRESS, "assignment": b""}, rule)
        g.state = PREPARING
        g.rebalance_tok += 1
        tok = g.rebalance_tok
        self.note(g, "prepare_rebalance", g.generation)
        self.cl.net.fault("rebalance")
        timeout = max([m.session_ms for m in g.members.values()] or [0]) / 1000.0
        self.sim.after(timeout, self._rebalance_timeout, g, tok)
        # phantoms rejoin by themselves
        for m in list(g.members.values()):
            if m.phantom is not None and not m.phantom.silent and not m.phantom.gone:
                self.sim.after(m.phantom.join_delay, self._phantom_rejoin, g, m, tok)
        self._maybe_complete_join(g)

    def _phantom_rejoin(self, g, m, tok):
        if g.rebalance_tok != tok or g.state != PREPARING or g.members.get(m.id) is not m:
            return
        m.join_pending = "phantom"
        self._maybe_complete_join(g)

    def _maybe_complete_join(self, g):
        if g.state != PREPARING:
            return
        if g.members and all(m.join_pending is not None for m in g.members.values()):
            self._complete_join(g)
        elif not g.members:
            self._complete_join(g)

    def _rebalance_timeout(self, g, tok):
        if g.rebalance_tok != tok or g.state != PREPARING:
            return
        for m in list(g.members.values()):
            if m.join_pending is None:
                self.note(g, "dropped_not_rejoined", m.id)
                g.members.pop(m.id)
        self._complete_join(g)

    def _complete_join(self, g):
        if not g.members:
            g.generation += 1
            g.state = EMPTY
            g.leader = None
            self.note(g, "empty", g.generation)
            return
        g.generation += 1
        common = None
        for m in g.members.values():
            names = [n for n, _ in m.protocols]
            common = names if common is None else [n for n in common if n in names]
        g.protocol = common[0]
        if g.leader not in g.members:
            g.leader = next(iter(g.members))
        g.state = AWAITING_SYNC
        g.assignments = None
        subs = {}
        for m in g.members.values():
            md = dict(m.protocols)[g.protocol]
            try:
                subs[m.id] = kwire.decode_struct(kwire.SUBSCRIPTION, md)["topics"]
            except kwire.WireError as e:
                subs[m.id] = None
                self.cl.wire_errors.append({"seq": -1, "key": kwire.JOIN_GROUP, "version": 0, "error": "subscription metadata of %s: %s" % (m.id, e)})
        rec = {"generation": g.generation, "leader": g.leader, "members": list(g.members), "subscriptions": subs,
               "assignments": None, "t": self.sim.now, "logseq": len(self.sim.log), "listing": None,
               "partitions": {t: sorted(self.cl.topics[t].partitions) for t in self.cl.topics}}
        g.history.append(rec)
        self.note(g, "generation", g.generation, g.leader, ",".join(g.members))
        for m in list(g.members.values()):
            pending, m.join_pending = m.join_pending, None
            if pending == "phantom":
                self.sim.after(m.phantom.join_delay, self._phantom_sync, g, m, g.generation)
            elif pending is not None:
                self._answer_join(g, m, pending)

    def _answer_join(self, g, m, pending):
        broker, st, entry, rule = pending
        members = []
        if m.id == g.leader:
            ms = list(g.members.values())
            if self.shuffle_listing:
                self.rng.shuffle(ms)
            members = [{"id": x.id, "metadata": dict(x.protocols)[g.protocol]} for x in ms]
            if g.history:
                g.history[-1]["listing"] = [x.id for x in ms]
        entry["join_answer"] = {"generation": g.generation, "member": m.id, "leader": g.leader}
        if self.on_join_answer is not None:
            self.on_join_answer(getattr(m, "pid", None), m.id == g.leader)
        self.cl.respond(broker, st, entry, {"error": 0, "generation": g.generation, "protocol": g.protocol, "leader": g.leader,
                                            "member": m.id, "members": members}, rule)

    # ---- sync ----------------------------------------------------------------------------------
    def _sync(self, g, broker, st, entry, rule):
        b = entry["body"]
        m = g.members.get(b["member"])
        if m is None:
            self._respond_error(broker, st, entry, E_UNKNOWN_MEMBER, rule)
            return
        if b["generation"] != g.generation:
            self._respond_error(broker, st, entry, E_ILLEGAL_GENERATION, rule)
            return
        self._touch(g, m)
        if g.state == PREPARING:
            self._respond_error(broker, st, entry, E_REBALANCE_IN_PROGRESS, rule)
        elif g.state == AWAITING_SYNC:
            m.sync_pending = (broker, st, entry, rule)
            if m.id == g.leader:
                assignments = {a["member"]: a["assignment"] for a in b["assignments"]}
                entry["leader_assignments"] = assignments
                self._install_assignments(g, assignments, real_leader=True)
        elif g.state == STABLE:
            entry["sync_answer"] = {"generation": g.generation, "assignment": m.assignment}
            self.cl.respond(broker, st, entry, {"error": 0, "assignment": m.assignment}, rule)
        else:
            self._respond_error(broker, st, entry, E_UNKNOWN_MEMBER, rule)

    def _install_assignments(self, g, assignments, real_leader):
        g.assignments = assignments
        g.state = STABLE
        if g.history:
            g.history[-1]["assignments"] = dict(assignments)
            g.history[-1]["real_leader"] = real_leader
            g.history[-1]["partitions_at_sync"] = {t: sorted(self.cl.topics[t].partitions) for t in self.cl.topics}
        self.note(g, "stable", g.generation)
        gen = g.generation
        for m in list(g.members.values()):
            m.assignment = assignments.get(m.id, b"")
        for m in list(g.members.values()):
            if g.generation != gen or g.state != STABLE:
                break  # answering one member tore its connection down and started the next rebalance
            if g.members.get(m.id) is m and m.sync_pending is not None:
                br, st, entry, rule = m.sync_pending
                m.sync_pending = None
                entry["sync_answer"] = {"generation": g.generation, "assignment": m.assignment}
                self.cl.respond(br, st, entry, {"error": 0, "assignment": m.assignment}, rule)

    def _phantom_sync(self, g, m, generation):
        if g.generation != generation or g.state != AWAITING_SYNC or g.members.get(m.id) is not m:
            return
        if m.id == g.leader:
            self._install_assignments(g, self._phantom_assign(g, m.phantom), real_leader=False)

    def _phantom_assign(self, g, ph):
        """Some valid assignment computed independently of afkak (sorted partitions dealt to sorted subscribers)."""
        subs = {}
        for m in g.members.values():
            md = dict(m.protocols)[g.protocol]
            subs[m.id] = kwire.decode_struct(kwire.SUBSCRIPTION, md)["topics"]
        out = {mid: {} for mid in subs}
        offset = self.rng.randrange(7)
        for topic in sorted(set(t for ts in subs.values() for t in ts)):
            t = self.cl.topics.get(topic)
            if t is None:
                continue
            owners = sorted(mid for mid, ts in subs.items() if topic in ts)
            for i, pid in enumerate(sorted(t.partitions)):
                owner = owners[(i + offset) % len(owners)]
                out[owner].setdefault(topic, []).append(pid)
        enc = {}
        for mid, tp in out.items():
            enc[mid] = kwire.encode_struct(kwire.ASSIGNMENT, {"version": 0, "partitions": [{"topic": t, "partitions": ps} for t, ps in sorted(tp.items())],
                                                            "user_data": b""})
        return enc

    # ---- heartbeat / leave -----------------------------------------------------------------------
    def _heartbeat(self, g, broker, st, entry, rule):
        b = entry["body"]
        m = g.members.get(b["member"])
        if m is None:
            self._respond_error(broker, st, entry, E_UNKNOWN_MEMBER, rule)
            return
        if b["generation"] != g.generation:
            self._respond_error(broker, st, entry, E_ILLEGAL_GENERATION, rule)
            return
        if g.state == STABLE:
            self._touch(g, m)
            self.cl.respond(broker, st, entry, {"error": 0}, rule)
        elif g.state in (PREPARING, AWAITING_SYNC):
            self._touch(g, m)
            self._respond_error(broker, st, entry, E_REBALANCE_IN_PROGRESS, rule)
        else:
            self._respond_error(broker, st, entry, E_UNKNOWN_MEMBER, rule)

    def _leave(self, g, broker, st, entry, rule):
        b = entry["body"]
        m = g.members.get(b["member"])
        if m is None:
            self._respond_error(broker, st, entry, E_UNKNOWN_MEMBER, rule)
            return
        self.note(g, "leave", m.id)
        self.cl.respond(broker, st, entry, {"error": 0}, rule)
        self._remove_member(g, m)

    # ---- commits ---------------------------------------------------------------------------------
    def validate_commit(self, gname, generation, member):
        g = self.cl.groups.get(gname)
        if g is None or (g.state == EMPTY and not g.members):
            if generation < 0:
                return 0
            return E_ILLEGAL_GENERATION
        if generation < 0 and not member:
            return E_UNKNOWN_MEMBER if g.members else 0
        if member not in g.members:
            return E_UNKNOWN_MEMBER
        if generation != g.generation:
            return E_ILLEGAL_GENERATION
        if g.state == AWAITING_SYNC:
            return E_REBALANCE_IN_PROGRESS
        return 0

    # ---- phantom control (fault actions) -----------------------------------------------------------
    def phantom_join(self, gname, ph):
        g = self.group(gname)
        g.next_member += 1
        ph.member_id = "%s-m%d" % (ph.name, g.next_member)
        md = kwire.encode_struct(kwire.SUBSCRIPTION, {"version": 0, "topics": ph.topics, "user_data": b""})
        m = Member(ph.member_id, ph.session_ms, [("consumer", md)], "consumer", phantom=ph)
        g.members[m.id] = m
        m.join_pending = "phantom"
        self.note(g, "phantom_join", m.id)
        self.cl.net.fault("phantom_join")
        if g.state != PREPARING:
            self._prepare_rebalance(g)
        else:
            self._maybe_complete_join(g)

    def phantom_leave(self, gname, ph):
        g = self.group(gname)
        m = g.members.get(ph.member_id)
        if m is None:
            return
        ph.gone = True
        self.note(g, "phantom_leave", m.id)
        self.cl.net.fault("phantom_leave")
        self._remove_member(g, m)

    def phantom_silence(self, gname, ph):
        g = self.group(gname)
        m = g.members.get(ph.member_id)
        if m is None:
            return
        ph.silent = True
        self.note(g, "phantom_silent", m.id)
        self.cl.net.fault("phantom_silent")
        self._touch(g, m)
