"""Simulated Kafka cluster: brokers, partition logs, offset store (group coordinator lives in groupcoord.py).

Written against the Kafka protocol guide, not against afkak.  One request at a time per connection,
responses in request order, the channel is muted while a request is parked -- as Kafka does.
Every oracle is stated against what this cluster *actually did* (request log, logs, frames delivered).
"""
import struct

from . import kwire
from .core import HarnessError
from .kwire import Msg, WireError
from .observe import frames_of

E_NONE, E_OFFSET_OUT_OF_RANGE, E_CORRUPT, E_UNKNOWN_TOPIC_OR_PARTITION = 0, 1, 2, 3
E_LEADER_NOT_AVAILABLE, E_NOT_LEADER, E_REQUEST_TIMED_OUT = 5, 6, 7
E_MESSAGE_TOO_LARGE, E_COORD_LOAD, E_COORD_NOT_AVAILABLE, E_NOT_COORDINATOR = 10, 14, 15, 16
E_NOT_ENOUGH_REPLICAS, E_ILLEGAL_GENERATION, E_INCONSISTENT_PROTOCOL = 19, 22, 23
E_INVALID_GROUP_ID, E_UNKNOWN_MEMBER, E_INVALID_SESSION_TIMEOUT, E_REBALANCE_IN_PROGRESS = 24, 25, 26, 27
E_UNSUPPORTED_VERSION = 35

DEFAULT_VERSIONS = {0: (0, 2), 1: (0, 2), 2: (0, 0), 3: (0, 0), 8: (0, 2), 9: (0, 1), 10: (0, 0), 11: (0, 0),
                    12: (0, 0), 13: (0, 0), 14: (0, 0), 18: (0, 0)}


def version_table(produce_max, fetch_max, nkeys=21):
    """An ApiVersions table as a newer broker sends it: every key 0..nkeys-1 in order, minimum 0, produce and fetch
    reaching further than this simulated broker (and afkak) implement.  A client may only pick what both sides have."""
    out = []
    for k in range(nkeys):
        lo, hi = DEFAULT_VERSIONS.get(k, (0, 0))
        if k == 0:
            hi = produce_max
        elif k == 1:
            hi = fetch_max
        out.append([k, lo, hi])
    return out


class LogEntry(object):
    """A stored unit: one plain message or one compressed wrapper with its inner messages."""
    __slots__ = ("msgs", "magic", "wrapper", "raw", "corrupt", "raw_clean", "heal", "rel0", "attrs", "members")

    def __init__(self, msgs, magic, wrapper, raw=None):
        self.msgs = msgs
        self.magic = magic
        self.wrapper = wrapper
        self.raw = raw  # pre-encoded native bytes (set when corrupted or nested by the generator)
        self.corrupt = False
        self.rel0 = 0
        self.members = 1  # gzip members the wrapper's compressed value consists of
        self.attrs = 0  # attribute bits beyond the codec (format 1: bit 3 = log-append time) carried by the (inner) messages

    @property
    def first(self):
        return self.msgs[0].offset

    @property
    def last(self):
        return self.msgs[-1].offset

    def encode(self, magic=None):
        if self.raw is not None and (self.corrupt or magic is None or magic == self.magic):
            return self.raw  # (a corrupted entry is served as stored: it cannot be converted)
        mg = self.magic if magic is None else magic
        if self.wrapper:
            ms = [Msg(m.offset, m.key, m.value, mg, m.timestamp if mg == 1 else None) for m in self.msgs]
            return kwire.encode_wrapper(ms, mg, rel0=self.rel0 if mg == 1 else 0, inner_attrs=self.attrs if mg == 1 else 0, members=self.members)
        m = self.msgs[0]
        return kwire.encode_entry(m.offset, kwire.encode_message(mg, self.attrs if mg == 1 else 0, m.key, m.value, m.timestamp if mg == 1 else None))


class Partition(object):
    def __init__(self, topic, pid, leader, replicas):
        self.topic = topic
        self.pid = pid
        self.leader = leader
        self.replicas = list(replicas)
        self.isr = list(replicas)
        self.entries = []
        self.log_start = 0
        self.leo = 0  # next offset to assign
        self.waiters = []  # parked fetches

    def messages(self):
        out = []
        for e in self.entries:
            out.extend(e.msgs)
        return out

    def append(self, kvs, magic, wrapper, now_ms):
        base = self.leo
        msgs = []
        for i, (k, v, ts) in enumerate(kvs):
            msgs.append(Msg(base + i, k, v, magic, ts if magic == 1 else None))
        self.leo = base + len(msgs)
        if wrapper:
            self.entries.append(LogEntry(msgs, magic, True))
        else:
            for m in msgs:
                self.entries.append(LogEntry([m], magic, False))
        return base

    def append_prebuilt(self, msgs, magic, wrapper, raw=None):
        """Generator-side: store messages with explicit (possibly gapped) offsets."""
        if msgs[0].offset < self.leo:
            raise HarnessError("offsets must increase")
        if wrapper:
            self.entries.append(LogEntry(msgs, magic, True, raw))
        else:
            for m in msgs:
                self.entries.append(LogEntry([m], magic, False, raw))
        self.leo = msgs[-1].offset + 1

    def read(self, offset, max_bytes, magic_cap):
        """Bytes of the entries from the one containing ``offset`` on, hard-truncated at max_bytes."""
        chunks = []
        size = 0
        for e in self.entries:
            if e.last < offset or e.last < self.log_start:
                continue
            mg = e.magic if e.magic <= magic_cap else magic_cap
            b = e.encode(mg)
            chunks.append(b)
            size += len(b)
            if size >= max_bytes:
                break
        data = b"".join(chunks)
        return data[:max(0, max_bytes)]


class Topic(object):
    def __init__(self, name):
        self.name = name
        self.partitions = {}
        self.error = 0  # topic-level error to report in metadata (e.g. 5 while being created)


class Broker(object):
    def __init__(self, cluster, node, host, port):
        self.cluster = cluster
        self.node = node
        self.host = host
        self.port = port
        self.up = True
        self.api_versions = "default"  # "default" | "none-close" | "none-silent" | list of (key,min,max)
        self.conns = {}
        self.frozen_meta = None
        self.req_count = 0
        self.hidden = False  # decommissioned: still serving, but absent from metadata answers

    # -- acceptor interface of SimNet --
    def accept(self, conn):
        if not self.up:
            return None
        st = {"buf": bytearray(), "queue": [], "busy": False, "conn": conn, "dead": False, "muted_forever": False}
        self.conns[conn.cid] = st
        return _ConnHandler(self, st)


class _ConnHandler(object):
    def __init__(self, broker, st):
        self.broker = broker
        self.st = st

    def data(self, conn, data):
        st = self.st
        st["buf"] += data
        frames, used, over = frames_of(st["buf"])
        del st["buf"][:used]
        st["queue"].extend(frames)
        if over:
            conn.reset()
            return
        self.broker.cluster._pump(self.broker, st)

    def closed(self, conn, clean):
        self.st["dead"] = True
        self.broker.cluster._conn_closed(self.broker, self.st)


class SimCluster(object):
    def __init__(self, sim, net, res):
        self.sim = sim
        self.net = net
        self.res = res
        self.brokers = {}
        self.topics = {}
        self.auto_create = False
        self.offsets = {}  # (group, topic, partition) -> (offset, metadata)
        self.coordinator_of = {}  # group -> node id (default: lowest alive node)
        self.groups = {}  # group -> GroupState (groupcoord)
        self.reqlog = []  # every parsed request, in arrival order
        self.applied = []  # produce applications: dicts
        self.wire_errors = []  # frames the strict parser rejected (C04)
        self.rules = []  # fault rules (see match_rule)
        self.rule_hits = {}
        self.rng = sim.rng("cluster")
        self.served_fetches = []
        self.commits = []
        self.on_request = None  # hook(entry) for oracles, after parsing, before handling
        self.on_response = None  # hook(entry, body_dict|None, raw) when a response is put on the wire
        self.resp_log = []
        self.group_handler = None

    # ---- topology --------------------------------------------------------------------------
    def add_broker(self, node, host=None, port=9092):
        host = host or "b%d" % node
        b = Broker(self, node, host, port)
        self.brokers[node] = b
        self.net.listen(host, port, b)
        return b

    def add_topic(self, name, nparts, leaders=None, part_ids=None):
        t = Topic(name)
        nodes = sorted(self.brokers)
        ids = part_ids or list(range(nparts))
        for i, pid in enumerate(ids):
            leader = leaders[i] if leaders is not None else nodes[i % len(nodes)]
            reps = [leader] + [n for n in nodes if n != leader][:1] if leader != -1 else nodes[:1]
            t.partitions[pid] = Partition(name, pid, leader, reps)
        self.topics[name] = t
        return t

    def part(self, topic, pid):
        t = self.topics.get(topic)
        if t is None:
            return None
        return t.partitions.get(pid)

    def alive(self):
        return [b for b in self.brokers.values() if b.up]

    def coordinator(self, group):
        n = self.coordinator_of.get(group)
        if n is None:
            al = sorted(b.node for b in self.alive())
            if not al:
                return None
            n = al[hash_str(group) % len(al)]
            self.coordinator_of[group] = n
        return n

    # ---- cluster-level fault actions ---------------------------------------------------------
    def move_leader(self, topic, pid, to):
        p = self.part(topic, pid)
        if p is None:
            return
        self.net.fault("leader_move")
        p.leader = to
        if to != -1 and to not in p.replicas:
            p.replicas.append(to)
            p.isr.append(to)
        self._wake(p, error_all=True)

    def broker_down(self, node, elect=True):
        b = self.brokers[node]
        if not b.up:
            return
        self.net.fault("broker_down")
        b.up = False
        self.net.unlisten(b.host, b.port)
        for st in list(b.conns.values()):
            if not st["dead"]:
                st["conn"].reset()
        if elect:
            others = sorted(x.node for x in self.alive())
            for t in self.topics.values():
                for p in t.partitions.values():
                    if p.leader == node:
                        p.leader = others[(p.pid + node) % len(others)] if others else -1
                        self._wake(p, error_all=True)
            for g, n in list(self.coordinator_of.items()):
                if n == node and others:
                    self.coordinator_of[g] = others[0]

    def broker_up(self, node, host=None, port=None):
        b = self.brokers[node]
        if b.up:
            return
        self.net.fault("broker_up")
        if host is not None:
            b.host = host
        if port is not None:
            b.port = port
        b.up = True
        b.conns = {}
        self.net.listen(b.host, b.port, b)
        for t in self.topics.values():
            for p in t.partitions.values():
                if p.leader == -1 and node in p.replicas:
                    p.leader = node

    def delete_topic(self, topic):
        if self.topics.pop(topic, None) is not None:
            self.net.fault("topic_deleted")

    def shrink_topic(self, topic):
        t = self.topics.get(topic)
        if t is not None and len(t.partitions) > 1:
            t.partitions.pop(max(t.partitions))
            self.net.fault("topic_shrunk")

    def hide_broker(self, node, elect=True):
        b = self.brokers[node]
        b.hidden = True
        self.net.fault("broker_decommissioned")
        others = sorted(x.node for x in self.alive() if not x.hidden)
        if elect and others:
            for t in self.topics.values():
                for p in t.partitions.values():
                    if p.leader == node:
                        p.leader = others[(p.pid + node) % len(others)]
            for g, n in list(self.coordinator_of.items()):
                if n == node:
                    self.coordinator_of[g] = others[0]

    def advance_log_start(self, topic, pid, to):
        p = self.part(topic, pid)
        if p is None:
            return
        self.net.fault("retention")
        p.log_start = min(max(p.log_start, to), p.leo)

    # ---- fault rules -------------------------------------------------------------------------
    def add_rule(self, rule):
        """rule: {"api": key, "node": n|None, "nth": k, "act": str, ...}; nth counts matching requests (from "from_t" on when given)."""
        r = dict(rule)
        r["_seen"] = 0
        r["_id"] = len(self.rules)
        self.rules.append(r)

    def _match_rule(self, node, key, body):
        hit = None
        for r in self.rules:
            if r.get("api") is not None and r["api"] != key:
                continue
            if r.get("node") is not None and r["node"] != node:
                continue
            if r.get("group") is not None and body.get("group") != r["group"]:
                continue
            if r.get("from_t") is not None and self.sim.now < r["from_t"]:
                continue  # the rule starts counting at that instant
            k = r["_seen"]
            r["_seen"] += 1
            lo = r.get("nth", 0)
            hi = lo + r.get("count", 1)
            if lo <= k < hi and hit is None:
                hit = r
        return hit

    # ---- request pump ------------------------------------------------------------------------
    def _pump(self, broker, st):
        while st["queue"] and not st["busy"] and not st["dead"] and not st["muted_forever"]:
            frame = st["queue"].pop(0)
            st["busy"] = True
            self._handle(broker, st, frame)

    def _conn_closed(self, broker, st):
        for t in self.topics.values():
            for p in t.partitions.values():
                p.waiters = [w for w in p.waiters if w["st"] is not st]
        if self.group_handler is not None:
            self.group_handler.conn_closed(st)

    def _done(self, broker, st):
        st["busy"] = False
        self._pump(broker, st)

    def _handle(self, broker, st, frame):
        sim = self.sim
        conn = st["conn"]
        entry = {"seq": len(self.reqlog), "t": sim.now, "node": broker.node, "cid": conn.cid, "pid": conn.pid,
                 "raw": frame, "key": None, "version": None, "corr": None, "body": None, "act": None, "logseq": len(sim.log)}
        self.reqlog.append(entry)
        broker.req_count += 1
        try:
            peek = kwire.peek_header(frame)
            entry["key"], entry["version"], entry["corr"] = peek["key"], peek["version"], peek["correlation"]
        except WireError as e:
            self.wire_errors.append({"seq": entry["seq"], "error": "header: %s" % e})
            conn.reset()
            return
        key = entry["key"]
        # brokers that predate ApiVersions
        if key == kwire.API_VERSIONS and broker.api_versions in ("none-close", "none-silent"):
            sim.record("req", broker.node, conn.cid, "ApiVersions", entry["corr"], "unsupported")
            self.net.fault("apiversions_unsupported")
            entry["act"] = broker.api_versions
            if broker.api_versions == "none-close":
                self.sim.after(0.01, conn.close)
            else:
                # the request is swallowed; the connection keeps serving what follows
                self._done(broker, st)
            return
        try:
            hdr, body = kwire.parse_request(frame)
        except WireError as e:
            self.wire_errors.append({"seq": entry["seq"], "key": key, "version": entry["version"], "error": str(e)})
            sim.record("req_malformed", broker.node, conn.cid, key, entry["version"], str(e)[:80])
            entry["malformed"] = str(e)
            # Kafka closes the connection on a request it cannot parse
            cidlen = max(0, struct.unpack(">h", frame[8:10])[0])
            if key == kwire.API_VERSIONS and "stray" in str(e):
                # like Kafka itself, go on serving a request whose body has trailing bytes
                # (the malformation is recorded above and judged by the C04 oracle)
                hdr = {"key": key, "version": entry["version"], "correlation": entry["corr"],
                       "client_id": frame[10:10 + cidlen].decode("utf-8", "replace")}
                body = {}
            else:
                conn.reset()
                return
        entry["client_id"] = hdr["client_id"]
        entry["body"] = body
        name = kwire.API_NAMES[key]
        sim.record("req", broker.node, conn.cid, name, entry["corr"], _brief_body(key, body))
        sim.mark("req", "%d/%s" % (broker.node, name))
        if self.on_request is not None:
            self.on_request(entry)
        rule = self._match_rule(broker.node, key, body)
        if rule is not None:
            entry["act"] = rule["act"]
            self.rule_hits[rule["_id"]] = self.rule_hits.get(rule["_id"], 0) + 1
            self.net.fault("rule_" + rule["act"])
        self._dispatch(broker, st, entry, rule)

    # ---- responding --------------------------------------------------------------------------
    def respond(self, broker, st, entry, body, rule=None, raw=None):
        """Put a response on the wire (subject to the rule's transport-level action)."""
        conn = st["conn"]
        if st["dead"]:
            return
        if raw is None:
            raw = kwire.encode_response(entry["key"], entry["version"], entry["corr"], body)
        act = rule["act"] if rule is not None else None
        if act == "garbage":
            raw = _garble(raw, self.rng, rule.get("mode", "flip"))
            if entry["key"] == kwire.API_VERSIONS and _outside_advertised_domain(raw):
                # the damage happens to read as a complete, error-free version table naming a negative or missing maximum
                # for produce or fetch: no broker advertises that (C04 quantifies over minimum 0, maximum >= 2), and a
                # client following it is not at fault - the answer is cut short instead, which no decoder accepts
                raw = raw[:4 + (len(raw) - 4) // 2]
        framed = struct.pack(">I", len(raw)) + raw
        delay = 0.0
        if rule is not None and rule.get("delay"):
            delay = rule["delay"]  # (also together with "error": a late error answer)

        def put():
            if st["dead"]:
                return
            entry["resp_t"] = self.sim.now
            entry["resp_body"] = body
            entry["resp_raw"] = raw
            self.sim.record("resp", broker.node, conn.cid, kwire.API_NAMES[entry["key"]], entry["corr"], _brief_resp(entry["key"], body))
            if self.on_response is not None:
                self.on_response(entry, body, raw)
            if act == "cut_mid":
                n = max(1, min(len(framed) - 1, int(len(framed) * rule.get("frac", 0.5))))
                conn.cut_s2c_after(len(conn.server_sent) + n)
                conn.send(framed)
                return
            conn.send(framed)
            if act == "cut_after":
                conn.close()
                return
            self._done(broker, st)

        if delay > 0:
            self.sim.after(delay, put)
        else:
            put()

    def no_response(self, broker, st, entry):
        """acks=0 produce: nothing is sent, the next request may proceed."""
        self._done(broker, st)

    # ---- dispatch ----------------------------------------------------------------------------
    def _dispatch(self, broker, st, entry, rule):
        key = entry["key"]
        body = entry["body"]
        act = rule["act"] if rule else None
        if act == "silent":
            st["muted_forever"] = True
            return
        if act == "cut_before":
            st["conn"].reset()
            return
        if key == kwire.PRODUCE:
            self._produce(broker, st, entry, rule)
        elif key == kwire.FETCH:
            self._fetch(broker, st, entry, rule)
        elif key == kwire.LIST_OFFSETS:
            self._list_offsets(broker, st, entry, rule)
        elif key == kwire.METADATA:
            self._metadata(broker, st, entry, rule)
        elif key == kwire.FIND_COORDINATOR:
            self._find_coordinator(broker, st, entry, rule)
        elif key == kwire.OFFSET_COMMIT:
            self._offset_commit(broker, st, entry, rule)
        elif key == kwire.OFFSET_FETCH:
            self._offset_fetch(broker, st, entry, rule)
        elif key == kwire.API_VERSIONS:
            self._api_versions(broker, st, entry, rule)
        elif key in (kwire.JOIN_GROUP, kwire.SYNC_GROUP, kwire.HEARTBEAT, kwire.LEAVE_GROUP):
            if self.group_handler is None:
                raise HarnessError("group request without a group coordinator")
            self.group_handler.handle(broker, st, entry, rule)
        else:
            raise HarnessError("unhandled api %r" % key)

    def _rule_error(self, rule, idx):
        """Error code the rule forces for the idx-th partition of the request, or None."""
        if rule is None or rule["act"] not in ("error", "error_after_apply"):
            return None
        only = rule.get("only")  # list of partition positions the error applies to (None = all)
        if only is not None and idx not in only:
            return None
        return rule["code"]

    # Produce ---------------------------------------------------------------------------------
    def _produce(self, broker, st, entry, rule):
        body = entry["body"]
        ver = entry["version"]
        topics_out = []
        idx = 0
        now_ms = int(self.sim.now * 1000)
        for t in body["topics"]:
            parts_out = []
            for p in t["partitions"]:
                forced = self._rule_error(rule, idx)
                idx += 1
                err, base = 0, -1
                part = self.part(t["name"], p["partition"])
                parsed = None
                try:
                    entries, _used = kwire.parse_message_set(p["records"], True, 0, True)
                    parsed = entries
                except WireError as e:
                    self.wire_errors.append({"seq": entry["seq"], "key": 0, "version": ver, "error": "records: %s" % e})
                    entry.setdefault("records_malformed", []).append(str(e))
                    err = E_CORRUPT
                if parsed is not None:
                    # message format must match the produce version (v0/v1 <-> magic 0, v2 <-> magic 0 or 1)
                    lv = kwire.leaves(parsed)
                    entry.setdefault("parsed", {})[(t["name"], p["partition"])] = (parsed, lv)
                    if ver < 2 and any(e["magic"] != 0 for e in parsed):
                        self.wire_errors.append({"seq": entry["seq"], "key": 0, "version": ver,
                                                 "error": "message format 1 inside a Produce v%d request" % ver})
                        entry["format_mismatch"] = True
                if forced is not None and (rule["act"] == "error" or err):
                    err = forced
                elif err:
                    pass
                elif part is None:
                    err = E_UNKNOWN_TOPIC_OR_PARTITION
                elif part.leader != broker.node:
                    err = E_NOT_LEADER
                else:
                    lv = kwire.leaves(parsed)
                    wrapper = any(e["inner"] is not None for e in parsed)
                    magic = parsed[0]["magic"] if parsed else 0
                    kvs = [(m["key"], m["value"], m["timestamp"]) for m in lv]
                    if kvs:
                        base = part.append(kvs, magic, wrapper, now_ms)
                    else:
                        base = part.leo
                    self.applied.append({"seq": entry["seq"], "t": self.sim.now, "node": broker.node, "topic": t["name"],
                                         "partition": p["partition"], "base": base, "kvs": [(k, v) for k, v, _ts in kvs],
                                         "magic": magic, "wrapper": wrapper, "acks": body["acks"], "logseq": len(self.sim.log),
                                         "cid": entry["cid"]})
                    self.sim.record("applied", broker.node, t["name"], p["partition"], base, len(kvs))
                    self._wake(part)
                    if forced is not None:  # error_after_apply: stored, yet reported as failed
                        err = forced
                        base = -1
                po = {"partition": p["partition"], "error": err, "offset": base}
                if ver >= 2:
                    po["log_append_time"] = -1
                parts_out.append(po)
            topics_out.append({"name": t["name"], "partitions": parts_out})
        if body["acks"] == 0:
            if rule is not None and rule["act"] in ("cut_after", "cut_mid"):
                st["conn"].reset()
                return
            self.no_response(broker, st, entry)
            return
        out = {"topics": topics_out}
        if ver >= 1:
            out["throttle"] = 0
        self.respond(broker, st, entry, out, rule)

    # Fetch -----------------------------------------------------------------------------------
    def _fetch(self, broker, st, entry, rule):
        body = entry["body"]
        ver = entry["version"]
        cap = 0 if ver < 2 else 1
        wait_s = max(0, body["max_wait"]) / 1000.0

        def build(final):
            total = 0
            any_err = False
            topics_out = []
            idx = 0
            for t in body["topics"]:
                parts_out = []
                for p in t["partitions"]:
                    forced = self._rule_error(rule, idx)
                    idx += 1
                    part = self.part(t["name"], p["partition"])
                    err, hwm, data = 0, -1, b""
                    if forced is not None:
                        err = forced
                    elif part is None:
                        err = E_UNKNOWN_TOPIC_OR_PARTITION
                    elif part.leader != broker.node:
                        err = E_NOT_LEADER
                    elif p["offset"] < part.log_start or p["offset"] > part.leo:
                        err = E_OFFSET_OUT_OF_RANGE
                        hwm = part.leo
                    else:
                        hwm = part.leo
                        data = part.read(p["offset"], p["max_bytes"], cap)
                    if err:
                        any_err = True
                    total += len(data)
                    parts_out.append({"partition": p["partition"], "error": err, "hwm": hwm, "records": data,
                                      "_req_offset": p["offset"], "_max_bytes": p["max_bytes"]})
                topics_out.append({"name": t["name"], "partitions": parts_out})
            return topics_out, total, any_err

        topics_out, total, any_err = build(False)
        if total >= max(1, body["min_bytes"]) or any_err or wait_s <= 0 or total > 0 and body["min_bytes"] <= total:
            self._fetch_reply(broker, st, entry, rule, topics_out)
            return
        # long poll: park until data arrives or max_wait elapses
        w = {"st": st, "done": False}

        def fire():
            if w["done"] or st["dead"]:
                return
            w["done"] = True
            for t in body["topics"]:
                for p in t["partitions"]:
                    part = self.part(t["name"], p["partition"])
                    if part is not None and w in part.waiters:
                        part.waiters.remove(w)
            tout, _tot, _err = build(True)
            self._fetch_reply(broker, st, entry, rule, tout)

        w["fire"] = fire
        for t in body["topics"]:
            for p in t["partitions"]:
                part = self.part(t["name"], p["partition"])
                if part is not None:
                    part.waiters.append(w)
        self.sim.after(wait_s, fire)

    def _fetch_reply(self, broker, st, entry, rule, topics_out):
        if rule is not None and rule["act"] == "garbage" and rule.get("mode") == "neg_msg_size":
            # hostile MessageSize fields inside the message set (negative values that would move a cursor backwards)
            for t in topics_out:
                for p in t["partitions"]:
                    ents, _used = kwire.frame_entries(p["records"])
                    if not ents:
                        continue
                    i = self.rng.randrange(len(ents))
                    pos = sum(12 + e[1] for e in ents[:i]) + 8
                    back = sum(12 + e[1] for e in ents[:i])
                    val = self.rng.choice([-12, -12, -(12 + back), -13, -2, -2 ** 31, -(8 + back)])
                    rec = bytearray(p["records"])
                    rec[pos:pos + 4] = struct.pack(">i", val)
                    p["records"] = bytes(rec)
                    self.net.fault("hostile_message_size")
        served = []
        for t in topics_out:
            for p in t["partitions"]:
                part = self.part(t["name"], p["partition"])
                served.append({"topic": t["name"], "partition": p["partition"], "offset": p.pop("_req_offset"),
                               "max_bytes": p.pop("_max_bytes"), "error": p["error"], "nbytes": len(p["records"]),
                               "leo": part.leo if part else None, "log_start": part.log_start if part else None,
                               "records": p["records"]})
        entry["served"] = served
        self.served_fetches.append(entry)
        out = {"topics": topics_out}
        if entry["version"] >= 1:
            out["throttle"] = 0
        self.respond(broker, st, entry, out, rule)

    def _wake(self, part, error_all=False):
        ws, part.waiters = part.waiters, []
        for w in ws:
            if not w["done"]:
                self.sim.after(0.0, w["fire"])

    # ListOffsets -----------------------------------------------------------------------------
    def _list_offsets(self, broker, st, entry, rule):
        body = entry["body"]
        topics_out = []
        idx = 0
        for t in body["topics"]:
            parts_out = []
            for p in t["partitions"]:
                forced = self._rule_error(rule, idx)
                idx += 1
                part = self.part(t["name"], p["partition"])
                err, offs = 0, []
                if forced is not None:
                    err = forced
                elif part is None:
                    err = E_UNKNOWN_TOPIC_OR_PARTITION
                elif part.leader != broker.node:
                    err = E_NOT_LEADER
                elif p["time"] == -1:
                    offs = [part.leo]
                elif p["time"] == -2:
                    offs = [part.log_start]
                else:
                    offs = [part.log_start]
                if p["max_num"] <= 0:
                    offs = []
                parts_out.append({"partition": p["partition"], "error": err, "offsets": offs})
            topics_out.append({"name": t["name"], "partitions": parts_out})
        self.respond(broker, st, entry, {"topics": topics_out}, rule)

    # Metadata --------------------------------------------------------------------------------
    def metadata_snapshot(self, names=None):
        brokers = [{"node": b.node, "host": b.host, "port": b.port} for b in sorted(self.alive(), key=lambda b: b.node) if not b.hidden]
        alive = set(b["node"] for b in brokers)
        topics = []
        want = names if names else sorted(self.topics)
        for name in want:
            t = self.topics.get(name)
            if t is None:
                if self.auto_create and names:
                    t = self.add_topic(name, 1)
                    t.error = E_LEADER_NOT_AVAILABLE  # first answer after creation, as Kafka does
                    for p in t.partitions.values():
                        p._pending_leader = p.leader
                    topics.append({"error": E_LEADER_NOT_AVAILABLE, "name": name, "partitions": []})
                    t.error = 0
                    continue
                topics.append({"error": E_UNKNOWN_TOPIC_OR_PARTITION, "name": name, "partitions": []})
                continue
            parts = []
            for pid in sorted(t.partitions):
                p = t.partitions[pid]
                leader = p.leader if p.leader in alive else -1
                parts.append({"error": 0 if leader != -1 else E_LEADER_NOT_AVAILABLE, "id": pid, "leader": leader,
                              "replicas": list(p.replicas), "isr": [r for r in p.isr if r in alive]})
            topics.append({"error": t.error, "name": name, "partitions": parts if not t.error else []})
        return {"brokers": brokers, "topics": topics}

    def _metadata(self, broker, st, entry, rule):
        names = entry["body"]["topics"]
        if rule is not None and rule["act"] == "error":
            snap = self.metadata_snapshot(names)
            for t in snap["topics"]:
                if rule.get("only_topics") and t["name"] not in rule["only_topics"]:
                    continue  # a partial failure: the other topics are answered as they are
                t["error"] = rule["code"]
                t["partitions"] = []
            self.respond(broker, st, entry, snap, rule)
            return
        if broker.frozen_meta is not None:
            self.net.fault("stale_metadata_served")
            snap = {"brokers": broker.frozen_meta["brokers"],
                    "topics": [t for t in broker.frozen_meta["topics"] if not names or t["name"] in names]}
            known = set(t["name"] for t in snap["topics"])
            for n in names:
                if n not in known:
                    snap["topics"].append({"error": E_UNKNOWN_TOPIC_OR_PARTITION, "name": n, "partitions": []})
        else:
            snap = self.metadata_snapshot(names)
        self.respond(broker, st, entry, snap, rule)

    def freeze_metadata(self, node):
        self.brokers[node].frozen_meta = self.metadata_snapshot(None)

    def thaw_metadata(self, node):
        self.brokers[node].frozen_meta = None

    # coordinator / offsets ----------------------------------------------------------------------
    def _find_coordinator(self, broker, st, entry, rule):
        if rule is not None and rule["act"] == "error":
            self.respond(broker, st, entry, {"error": rule["code"], "node": -1, "host": "", "port": -1}, rule)
            return
        n = self.coordinator(entry["body"]["group"])
        if n is None or not self.brokers[n].up:
            self.respond(broker, st, entry, {"error": E_COORD_NOT_AVAILABLE, "node": -1, "host": "", "port": -1}, rule)
            return
        b = self.brokers[n]
        self.respond(broker, st, entry, {"error": 0, "node": b.node, "host": b.host, "port": b.port}, rule)

    def _offset_commit(self, broker, st, entry, rule):
        body = entry["body"]
        group = body["group"]
        topics_out = []
        idx = 0
        gerr = 0
        if self.coordinator(group) != broker.node:
            gerr = E_NOT_COORDINATOR
        elif self.group_handler is not None:
            gerr = self.group_handler.validate_commit(group, body["generation"], body["member"])
        for t in body["topics"]:
            parts_out = []
            for p in t["partitions"]:
                forced = self._rule_error(rule, idx)
                idx += 1
                err = gerr
                if forced is not None and rule["act"] == "error":
                    err = forced
                rec = {"seq": entry["seq"], "t": self.sim.now, "group": group, "topic": t["name"], "partition": p["partition"],
                       "offset": p["offset"], "generation": body["generation"], "member": body["member"], "error": err,
                       "metadata": p["metadata"], "pid": entry["pid"], "logseq": len(self.sim.log), "stored": False}
                if err == 0:
                    self.offsets[(group, t["name"], p["partition"])] = (p["offset"], p["metadata"])
                    rec["stored"] = True
                    if forced is not None:
                        err = forced
                        rec["error"] = err
                self.commits.append(rec)
                parts_out.append({"partition": p["partition"], "error": err})
            topics_out.append({"name": t["name"], "partitions": parts_out})
        self.respond(broker, st, entry, {"topics": topics_out}, rule)

    def _offset_fetch(self, broker, st, entry, rule):
        body = entry["body"]
        group = body["group"]
        topics_out = []
        idx = 0
        not_coord = self.coordinator(group) != broker.node
        for t in body["topics"]:
            parts_out = []
            for pid in t["partitions"]:
                forced = self._rule_error(rule, idx)
                idx += 1
                off, meta, err = -1, "", 0
                if forced is not None:
                    err = forced
                elif not_coord:
                    err = E_NOT_COORDINATOR
                else:
                    got = self.offsets.get((group, t["name"], pid))
                    if got is not None:
                        off, meta = got[0], got[1] if got[1] is not None else ""
                parts_out.append({"partition": pid, "offset": off, "metadata": meta, "error": err})
            topics_out.append({"name": t["name"], "partitions": parts_out})
        entry["offset_fetch_result"] = topics_out
        self.respond(broker, st, entry, {"topics": topics_out}, rule)

    def _api_versions(self, broker, st, entry, rule):
        if rule is not None and rule["act"] == "error":
            # an error answer may still list entries: a real broker answers UNSUPPORTED_VERSION with the ApiVersions entry
            # alone, a proxy may stamp an error on the full table.  The error code decides: discovery has failed.
            how = (rule["code"] + entry["corr"]) % 3
            if how == 0:
                versions = []
            elif how == 1:
                versions = [{"key": 18, "min": 0, "max": 0}]
            else:
                versions = [{"key": k, "min": v[0], "max": v[1]} for k, v in sorted(DEFAULT_VERSIONS.items())]
            self.respond(broker, st, entry, {"error": rule["code"], "versions": versions}, rule)
            return
        if broker.api_versions == "default":
            table = [(k, v[0], v[1]) for k, v in sorted(DEFAULT_VERSIONS.items())]
        else:
            table = list(broker.api_versions)
        entry["advertised"] = table
        self.respond(broker, st, entry, {"error": 0, "versions": [{"key": k, "min": a, "max": b} for k, a, b in table]}, rule)


def hash_str(s):
    h = 0
    for ch in s.encode():
        h = (h * 31 + ch) & 0x7FFFFFFF
    return h


def _brief_body(key, body):
    try:
        if key in (kwire.PRODUCE, kwire.FETCH, kwire.LIST_OFFSETS, kwire.OFFSET_COMMIT):
            return ",".join("%s/%s" % (t["name"], "+".join(str(p["partition"]) + (":%d" % p["offset"] if "offset" in p else "")
                                                            for p in t["partitions"])) for t in body["topics"])
        if key == kwire.OFFSET_FETCH:
            return ",".join("%s/%s" % (t["name"], "+".join(map(str, t["partitions"]))) for t in body["topics"])
        if key == kwire.METADATA:
            return ",".join(body["topics"])
        if "group" in body:
            return "%s g%s m%s" % (body["group"], body.get("generation", ""), body.get("member", ""))
    except Exception:
        pass
    return ""


def _brief_resp(key, body):
    try:
        if "topics" in body and key != kwire.METADATA:
            return ",".join("%s/%s" % (t["name"], "+".join("%d:e%d" % (p["partition"], p["error"]) for p in t["partitions"]))
                            for t in body["topics"])
        if "error" in body:
            return "e%d" % body["error"]
    except Exception:
        pass
    return ""


def _outside_advertised_domain(raw):
    """True when ``raw`` (correlation id + ApiVersions v0 body) parses completely, without error code, to a table
    whose produce or fetch entry is absent, starts above 0 or ends below 2."""
    body = raw[4:]
    if len(body) < 6:
        return False
    err, n = struct.unpack(">hi", body[:6])
    if err != 0 or n < 0 or len(body) != 6 + 6 * n:
        return False
    table = {}
    for i in range(n):
        k, lo, hi = struct.unpack(">hhh", body[6 + 6 * i:12 + 6 * i])
        table[k] = (lo, hi)
    return any(k not in table or table[k][0] != 0 or table[k][1] < 2 for k in (0, 1))


def _garble(raw, rng, mode):
    """Hostile response bytes (the correlation id is kept so that the client attributes it to the request)."""
    head, tail = raw[:4], bytearray(raw[4:])
    if mode == "random":
        n = rng.randint(0, 64)
        return head + bytes(rng.getrandbits(8) for _ in range(n))
    if mode == "truncate" and tail:
        return head + bytes(tail[:rng.randint(0, len(tail) - 1)])
    if mode == "hostile_len" and len(tail) >= 4:
        pos = rng.randint(0, len(tail) - 4)
        tail[pos:pos + 4] = struct.pack(">i", rng.choice([2 ** 31 - 1, 2 ** 30, -2, 65536 * 1024]))
        return head + bytes(tail)
    if tail:
        for _ in range(rng.randint(1, 4)):
            pos = rng.randint(0, len(tail) - 1)
            tail[pos] ^= 1 << rng.randint(0, 7)
    return head + bytes(tail)
