"""Deterministic simulation of afkak (see /verif/DESIGN.md)."""
import os
import sys

AFKAK_SRC = os.environ.get("AFKAK_SRC", "/repo")


def use_afkak_src():
    """Make ``import afkak`` resolve to the tree under test (default /repo).

    The checks must run against /repo's *current working tree*; /venv has afkak
    installed in editable mode pointing at /repo already, but an explicit path
    entry makes AFKAK_SRC=<scratch copy> work for the mutant self-test.
    """
    if AFKAK_SRC not in sys.path:
        sys.path.insert(0, AFKAK_SRC)
    # a stale import from another location would silently test the wrong tree
    mod = sys.modules.get("afkak")
    if mod is not None:
        where = os.path.dirname(os.path.dirname(os.path.abspath(mod.__file__)))
        if os.path.realpath(where) != os.path.realpath(AFKAK_SRC):
            raise RuntimeError("afkak imported from %s, wanted %s" % (where, AFKAK_SRC))
