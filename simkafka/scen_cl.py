"""Family CL: one real KafkaClient driven through its public methods against the simulated cluster.

Decides C07 (routing, result order, partial-failure accounting, broker-agnostic fallback), C08 (cache coherence
and invalidation), C11 (client-side timeout), C20 (close), C05 (every response decoded at the client boundary
equals what the independent codec encoded), C04 (API sweep through the strict parser) and the arbitrary-bytes
half of C12 (hostile responses: every call terminates within a work budget proportional to the input).
"""
import random
import sys
import tracemalloc

from . import kwire
from .core import HarnessError
from .observe import watch
from .world import World, client_frames

FAMILY = "cl"
SHRINK_LISTS = ("faults", "ops")
GROUPS = ["ga", "gb"]


def simplify(plan):
    cfg = plan["cfg"]
    for key, val in (("shuffle_ties", False), ("seg", ["coalesce", "coalesce"]), ("lat", [0.0005, 0.001])):
        if cfg.get(key) != val:
            c = dict(plan)
            c["cfg"] = dict(cfg)
            c["cfg"][key] = val
            yield c


def gen_plan(seed, tier="quick", variant=None):
    rng = random.Random(seed * 48271 % (2 ** 31) + 13)
    thorough = tier == "thorough"
    if variant is None:
        variant = rng.choice(["route", "route", "timeout", "close", "close_refresh", "close_refresh", "cache", "cache", "garbage", "sweep", "unaware"])
    nb = rng.randint(1, 5 if thorough else 4)
    if variant == "close_refresh":
        nb = rng.randint(3, 5)
    if variant == "unaware":
        nb = rng.randint(2, 4)
    topics = []
    for i in range(rng.randint(1, 4)):
        np_ = rng.randint(1, 5)
        leaders = [rng.choice(list(range(1, nb + 1)) + ([-1] if rng.random() < 0.15 else [])) for _ in range(np_)]
        topics.append({"name": "c%d" % i, "parts": np_, "leaders": leaders, "msgs": rng.choice([0, 1, 3])})
    timeout_ms = rng.choice([50, 200, 1000, 10000]) if variant == "timeout" else rng.choice([300, 1000, 5000])
    cfg = {
        "variant": variant, "brokers": nb, "topics": topics,
        "lat": [0.0005, rng.choice([0.001, 0.005])],
        "seg": "mixed" if rng.random() < 0.5 else ["coalesce", "coalesce"],
        "shuffle_ties": rng.random() < 0.5,
        "client": {"timeout_ms": timeout_ms, "discover": rng.random() < 0.5, "retry": [round(rng.choice([0.01, 0.05, 0.2]), 3) for _ in range(3)],
                   "disconnect_on_timeout": rng.random() < 0.4, "client_id": rng.choice(["sim", "", "kläger-ü", "x" * 40])},
        "connect_timeout": rng.choice([0.5, 2.0]),
        "late_timers": rng.choice([0.0, 0.0, 0.0, 0.002, 0.03]),
        "close_lat": [0.0, rng.choice([0.001, 0.001, 0.02, 0.08])],
        "warm": rng.random() < 0.6 or variant == "close_refresh",
        "coordinators": {g: rng.randint(1, nb) for g in GROUPS},
    }
    r3 = random.Random(seed * 613 + 11)
    if cfg["client"]["discover"] and r3.random() < 0.4:
        from .cluster import version_table
        tab = version_table(*r3.choice([(3, 3), (5, 6), (8, 11), (2, 11), (9, 2)]))
        cfg["apiversions"] = {str(n): tab for n in range(1, nb + 1) if r3.random() < 0.8}
    horizon = rng.choice([0.1, 0.5, 2.0])
    ops = []
    all_tps = [(t["name"], p) for t in topics for p in range(t["parts"])]
    ncalls = rng.randint(1, 14 if thorough else 8)
    for i in range(ncalls):
        kind = rng.choice(["produce", "produce", "fetch", "fetch", "offsets", "offset_fetch", "offset_commit", "metadata", "metadata_all",
                           "coordinator", "heartbeat", "join"])
        tps = rng.sample(all_tps, rng.randint(1, min(len(all_tps), 6)))
        if rng.random() < 0.1:
            tps.append(("nosuch", 0))
        rng.shuffle(tps)
        o = {"t": round(rng.random() * horizon, 6), "op": "call", "id": i, "kind": kind, "tps": tps}
        if kind == "produce":
            o["acks"] = rng.choice([1, 1, -1, 0])
            o["nmsg"] = rng.randint(1, 3)
            o["size"] = rng.choice([0, 10, 500, 4000 if thorough else 100])
            o["nullkey"] = rng.random() < 0.3
            o["codec"] = rng.choice([0, 0, 1])
        elif kind == "fetch":
            o["offset"] = rng.choice([0, 0, 1, 5, 2 ** 40])
            o["max_bytes"] = rng.choice([64, 300, 4096, 2 ** 31 - 1])
            o["max_wait"] = rng.choice([0, 10, 100])
            o["min_bytes"] = rng.choice([1, 64, 4096])
        elif kind == "offsets":
            o["time"] = rng.choice([-1, -2, 0, 2 ** 62])
            o["max_offsets"] = rng.choice([1, 1, 5, 0])
        elif kind in ("offset_fetch", "offset_commit", "coordinator", "heartbeat", "join"):
            o["group"] = rng.choice(GROUPS)
            o["offset"] = rng.choice([0, 7, 2 ** 62, -1])
            o["metadata"] = rng.choice([None, "", "méta", "x" * 200])
            o["generation"] = rng.choice([-1, 0, 5])
            o["member"] = rng.choice(["", "mem-1"])
        elif kind == "metadata":
            o["topics"] = sorted(set(tp[0] for tp in tps))
        ops.append(o)
    if variant == "close" or rng.random() < 0.15:
        if rng.random() < 0.5:
            ops.append({"t": round(rng.random() * horizon * 1.2, 6), "op": "close"})
        else:
            ops.append({"on": rng.randint(0, 10), "delay": round(rng.choice([0.0, 0.0002, 0.003]), 6), "op": "close"})
        for i in range(rng.randint(0, 3)):
            ops.append({"t": round(horizon * 1.3 + rng.random() * 0.2, 6), "op": "call", "id": 100 + i, "kind": rng.choice(["produce", "fetch", "metadata", "offset_fetch"]),
                        "tps": rng.sample(all_tps, 1), "acks": 1, "nmsg": 1, "size": 5, "nullkey": False, "codec": 0, "offset": 0, "max_bytes": 100,
                        "max_wait": 0, "min_bytes": 1, "topics": [all_tps[0][0]], "group": "ga", "metadata": None, "generation": -1, "member": ""})
    faults = []
    if variant == "close_refresh":
        cfg["close_lat"] = [0.005, rng.choice([0.02, 0.08])]
        cfg["lat"] = [0.0005, 0.001]
        cfg["seg"] = ["coalesce", "coalesce"]
        ops = [o for o in ops if o["op"] != "close" and o.get("id", 0) < 100]
        t0 = horizon * 0.5
        gone = rng.sample(range(1, nb + 1), 2)
        # a request on every broker first, so that every broker has an open connection
        ops.append({"t": round(t0 - 0.02, 6), "op": "call", "id": 50, "kind": "offsets", "tps": all_tps[:], "time": -1, "max_offsets": 1})
        dt1 = rng.choice([0.001, 0.004, 0.01])
        faults.append({"t": round(t0, 6), "act": "hide_broker", "node": gone[0]})
        ops.append({"t": round(t0 + 0.0005, 6), "op": "call", "id": 51, "kind": "metadata_all", "tps": []})
        faults.append({"t": round(t0 + dt1, 6), "act": "hide_broker", "node": gone[1]})
        ops.append({"t": round(t0 + dt1 + 0.0005, 6), "op": "call", "id": 52, "kind": "metadata_all", "tps": []})
        if random.Random(seed * 997 + 1).random() < 0.4:
            # ... or the application closes from the failure callback of a request that the refresh fails by retiring its
            # broker: a slow request on every partition, still in flight when the refresh is merged
            led = [(t["name"], i) for t in topics for i, ld in enumerate(t["leaders"]) if ld in gone] or all_tps[:1]
            ops.append({"t": round(t0 - 0.001, 6), "op": "call", "id": 53, "kind": "fetch", "tps": led, "offset": 2 ** 40, "max_bytes": 4096,
                        "max_wait": 100, "min_bytes": 4096})
            ops.append({"after_call": 53, "op": "close"})
        else:
            ops.append({"t": round(t0 + dt1 + rng.choice([0.004, 0.008, 0.02, 0.05]), 6), "op": "close"})
    nf = rng.choice([0, 1, 2, 3, 5]) if variant not in ("sweep", "close_refresh") else rng.choice([0, 0, 1])
    if variant == "close_refresh":
        nf = 0
    if variant == "close" and rng.random() < 0.5:
        # broker clients sitting in reconnect back-off (after failures that came back at once, later, or never) when close() lands
        faults.append({"kind": "connect", "nth": rng.randint(1, 4), "what": rng.choice(["sync_fail", "sync_fail", "refused", "dns"]), "count": rng.choice([3, 8, 50])})
    for _ in range(nf):
        kinds = ["error", "silent", "cut_before", "cut_mid", "cut_after", "delay", "delay", "refuse", "broker_down", "move_leader", "stale", "readdress",
                 "add_topic", "remove_broker", "delete_topic", "shrink_topic"]
        if variant == "cache":
            kinds = ["delete_topic", "shrink_topic", "add_topic", "move_leader", "meta_error", "meta_error", "remove_broker", "readdress", "stale"]
        if variant == "garbage":
            kinds = ["garbage"] * 6 + ["delay"]
        if variant == "timeout":
            kinds = ["delay"] * 5 + ["silent"] * 3 + ["blackhole"]
        kind = rng.choice(kinds)
        node = rng.choice([None, None, None] + list(range(1, nb + 1)))
        kind_api = {"produce": 0, "fetch": 1, "offsets": 2, "metadata": 3, "metadata_all": 3, "offset_commit": 8, "offset_fetch": 9,
                    "coordinator": 10, "heartbeat": 12, "join": 11}
        present = [kind_api[o["kind"]] for o in ops if o.get("op") == "call"] or [3]
        api = rng.choice(present + present + [3, 10, 18])
        if kind == "error":
            faults.append({"api": api, "node": node, "nth": rng.randint(0, 2), "act": "error",
                           "code": rng.choice([3, 6, 5, 7, 14, 15, 16, 1, 2, 22, 25, 27, 999, 32767, -1]), "count": rng.choice([1, 1, 3]),
                           "only": rng.choice([None, None, [0], [1, 2]])})
        elif kind in ("silent", "cut_before", "cut_mid", "cut_after"):
            f = {"api": api, "node": node, "nth": rng.randint(0, 2), "act": kind}
            if kind == "cut_mid":
                f["frac"] = rng.random()
            faults.append(f)
        elif kind == "delay":
            faults.append({"api": api, "node": node, "nth": rng.randint(0, 2), "act": "delay", "count": rng.choice([1, 2]),
                           "delay": round(rng.choice([0.3, 0.9, 0.999, 1.001, 1.1, 3.0]) * timeout_ms / 1000.0, 6)})
        elif kind == "garbage":
            faults.append({"api": api, "node": node, "nth": rng.randint(0, 2), "act": "garbage", "count": rng.choice([1, 2, 4]),
                           "mode": rng.choice(["flip", "random", "truncate", "hostile_len", "hostile_len", "neg_msg_size", "neg_msg_size"])})
            if faults[-1]["mode"] == "neg_msg_size":
                faults[-1]["api"] = 1
        elif kind in ("refuse", "blackhole"):
            faults.append({"kind": "connect", "nth": rng.randint(0, 8), "what": rng.choice(["refused", "blackhole", "dns", "sync_fail"]) if kind == "refuse" else "blackhole",
                           "count": rng.choice([1, 2, 5])})
        elif kind == "broker_down" and nb > 1:
            n = rng.randint(1, nb)
            t0 = round(rng.random() * horizon, 6)
            faults.append({"t": t0, "act": "broker_down", "node": n, "elect": rng.random() < 0.7})
            if rng.random() < 0.6:
                faults.append({"t": round(t0 + rng.choice([0.05, 0.5]), 6), "act": "broker_up", "node": n})
        elif kind == "move_leader":
            tp = rng.choice(all_tps)
            faults.append({"t": round(rng.random() * horizon, 6), "act": "move_leader", "topic": tp[0], "partition": tp[1], "to": rng.choice(list(range(1, nb + 1)) + [-1])})
        elif kind == "stale" and nb > 1:
            n = rng.randint(1, nb)
            t0 = round(rng.random() * horizon, 6)
            faults.append({"t": t0, "act": "freeze_meta", "node": n})
            faults.append({"t": round(t0 + rng.choice([0.1, 1.0]), 6), "act": "thaw_meta", "node": n})
        elif kind == "readdress" and nb > 1:
            n = rng.randint(1, nb)
            t0 = round(rng.random() * horizon, 6)
            faults.append({"t": t0, "act": "broker_down", "node": n, "elect": False})
            faults.append({"t": round(t0 + 0.05, 6), "act": "broker_up", "node": n, "host": "b%dz" % n, "port": 9393})
        elif kind == "add_topic":
            faults.append({"t": round(rng.random() * horizon, 6), "act": "add_partitions", "topic": rng.choice(topics)["name"], "n": rng.randint(1, 2)})
        elif kind == "delete_topic":
            faults.append({"t": round(rng.random() * horizon, 6), "act": "delete_topic", "topic": rng.choice(topics)["name"]})
        elif kind == "shrink_topic":
            faults.append({"t": round(rng.random() * horizon, 6), "act": "shrink_topic", "topic": rng.choice(topics)["name"]})
        elif kind == "meta_error":
            faults.append({"api": 3, "node": None, "nth": rng.randint(0, 3), "act": "error", "code": rng.choice([5, 3]), "count": rng.choice([1, 2])})
        elif kind == "remove_broker" and nb > 1:
            faults.append({"t": round(rng.random() * horizon, 6), "act": "broker_down", "node": rng.randint(1, nb), "elect": True})
    if variant == "cache":
        for j in range(rng.randint(1, 3)):
            ops.append({"t": round(horizon * (1.0 + 0.2 * j) + rng.random() * 0.05, 6), "op": "call", "id": 60 + j,
                        "kind": rng.choice(["metadata", "metadata", "metadata_all"]), "tps": [], "topics": sorted(set(tp[0] for tp in all_tps))})
    if variant == "unaware":
        # a broker-agnostic request when the only reachable broker is one the client already has an (idle, dropped) client
        # for: every known broker must be tried before the caller is told "unavailable"
        led = sorted(set(ld for t in topics for ld in t["leaders"] if ld > 0)) or [1]
        x = rng.choice(led)
        tp_x = [(t["name"], i) for t in topics for i, ld in enumerate(t["leaders"]) if ld == x] or [all_tps[0]]
        cfg["warm"] = True
        cfg["client"]["timeout_ms"] = rng.choice([300, 1000])
        cfg["client"]["disconnect_on_timeout"] = False
        ops = [{"t": 0.1, "op": "call", "id": 0, "kind": rng.choice(["fetch", "offsets"]), "tps": [rng.choice(tp_x)], "offset": 0, "max_bytes": 4096,
                "max_wait": 0, "min_bytes": 1, "time": -1, "max_offsets": 1}]
        if rng.random() < 0.5:
            others = [tp for tp in all_tps if tp not in tp_x]
            if others:
                ops.append({"t": 0.15, "op": "call", "id": 1, "kind": "offsets", "tps": [rng.choice(others)], "time": -1, "max_offsets": 1})
        t_drop = round(0.3 + rng.random() * 0.2, 6)
        kind2 = rng.choice(["metadata", "metadata", "metadata_all", "coordinator"])
        ops.append({"t": round(t_drop + 0.2 + rng.random() * 0.3, 6), "op": "call", "id": 5, "kind": kind2, "tps": [all_tps[0]], "topics": [all_tps[0][0]],
                    "group": GROUPS[0], "offset": 0, "metadata": None, "generation": -1, "member": ""})
        faults = [{"t": t_drop, "act": "cut_conns", "node": None},
                  {"kind": "connect", "from_t": round(t_drop + 0.01, 6), "not_host": "b%d" % x, "what": rng.choice(["refused", "refused", "sync_fail", "dns"])}]
    if variant == "timeout" and random.Random(seed * 977 + 1).random() < 0.15:
        # version discovery against a broker that does not answer it while the bootstrap host is unreachable: the probe
        # is retried (with the same correlation id) on a connection that still remembers the first, timed-out one
        r6 = random.Random(seed * 977 + 2)
        cfg["warm"] = True
        cfg["client"].update(discover=True, disconnect_on_timeout=False, timeout_ms=r6.choice([200, 1000]))
        cfg.pop("apiversions", None)
        faults = [{"api": 18, "node": None, "nth": 0, "act": "silent", "count": r6.choice([nb, 2 * nb, 50])},
                  {"kind": "connect", "from_t": 0.04, "only_host": "kafka", "what": r6.choice(["refused", "sync_fail", "dns"])}]
        ops = [o for o in ops if o.get("op") == "call" and o["kind"] in ("produce", "fetch")][:3] or \
            [{"t": 0.1, "op": "call", "id": 0, "kind": "fetch", "tps": [all_tps[0]], "offset": 0, "max_bytes": 4096, "max_wait": 0, "min_bytes": 1}]
        for i, o in enumerate(ops):
            o["t"] = round(0.1 + i * r6.choice([0.0, 0.05, 0.5]), 6)
            o["tps"] = [tp for tp in o["tps"] if tp[0] != "nosuch"] or [all_tps[0]]
            if o["kind"] == "fetch":
                o["max_wait"] = 0
    elif variant == "timeout" and rng.random() < 0.6:
        # several requests share connections while a broker goes silent for a few of them: the oldest times out first,
        # the younger ones are still unanswered at that instant
        cfg["warm"] = True
        cfg["client"]["timeout_ms"] = tm = rng.choice([200, 1000])
        t0 = round(0.05 + rng.random() * 0.3, 6)
        callops = [o for o in ops if o.get("op") == "call"]
        for i, o in enumerate(callops):
            o["t"] = round(t0 + i * tm / 1000.0 * rng.choice([0.05, 0.2]), 6)
            if o["kind"] not in ("fetch", "offsets", "produce", "offset_fetch"):
                o["kind"] = rng.choice(["offsets", "offset_fetch", "fetch"])
                o.setdefault("group", GROUPS[0])
                o.setdefault("offset", 0)
                o.update(time=-1, max_offsets=1, max_bytes=4096, max_wait=0, min_bytes=1)
            if o["kind"] == "fetch":
                o["max_wait"] = 0
            o["tps"] = [tp for tp in o["tps"] if tp[0] != "nosuch"] or [all_tps[0]]
        faults.append({"api": None, "node": rng.choice([None, None] + list(range(1, nb + 1))), "nth": rng.randint(0, 2), "act": "silent", "count": rng.choice([1, 2, 3])})
    r9 = random.Random(seed * 991 + 3)
    callops_ = [o for o in ops if o.get("op") == "call"]
    if callops_ and variant in ("route", "close", "cache", "timeout") and r9.random() < 0.25:
        # the application acts from inside a result callback: issues the next call, or closes the client
        a = r9.choice(callops_)
        if r9.random() < 0.4 and not any(o.get("op") == "close" for o in ops):
            ops.append({"after_call": a["id"], "op": "close"})
        else:
            b = dict(r9.choice(callops_))
            b.pop("t", None)
            b.pop("on", None)
            b.update(id=200 + r9.randint(0, 9), after_call=a["id"])
            ops.append(b)
    t_end = round(max([horizon * 1.6] + [f["t"] for f in faults if "t" in f] + [o["t"] for o in ops if "t" in o]) + 0.01, 6)
    post = []
    if any(f.get("act") == "broker_up" and f.get("host") for f in faults) and not any(o.get("op") == "close" for o in ops):
        # a broker came back under another address: group requests issued (one after the other) once the faults are over
        # must find their way again - the coordinator lookup's answer is the only place the new address comes from
        tm_ = cfg["client"]["timeout_ms"] / 1000.0
        g_ = r9.choice(GROUPS)
        for i in range(4):
            post.append({"dt": round(1.0 + i * 2.2 * tm_, 6), "op": "call", "id": 300 + i, "kind": "offset_fetch", "tps": [all_tps[0]], "group": g_,
                         "offset": 0, "metadata": None, "generation": -1, "member": "", "post": True})
    return {"family": FAMILY, "seed": seed, "tier": tier, "cfg": cfg, "ops": ops, "faults": faults, "t_end": t_end, "post": post}


def _known_brokers(client):
    try:
        return {n: (bm.host, bm.port) for n, bm in client._brokers.items()}
    except Exception:
        return {}


def plans_for(seed, tier):
    return [gen_plan(seed, tier)]


def run_plan(plan):
    w = World(plan, max_events=120000)
    try:
        return _run(w, plan)
    finally:
        w.restore_modules()


# --------------------------------------------------------------------------------------------


def _run(w, plan):
    from afkak.common import (ClientError, FailedPayloadsError, FetchRequest, KafkaUnavailableError, Message, OffsetCommitRequest,
                              OffsetFetchRequest, OffsetRequest, ProduceRequest, RequestTimedOutError, _HeartbeatRequest, _JoinGroupRequest,
                              _JoinGroupRequestProtocol)
    from afkak.kafkacodec import KafkaCodec, create_message_set
    from afkak.common import SendRequest
    from twisted.internet.defer import CancelledError

    cfg = plan["cfg"]
    sim, res, net, cl = w.sim, w.res, w.net, w.cluster
    from .groupcoord import GroupCoordinator
    cl.group_handler = GroupCoordinator(cl)
    for g, n in cfg["coordinators"].items():
        cl.coordinator_of[g] = n
    for t in cfg["topics"]:
        for pid, part in cl.topics[t["name"]].partitions.items():
            for i in range(t["msgs"]):
                part.append([(b"k%d" % i, b"%s/%d#%d" % (t["name"].encode(), pid, i), None)], i % 2, i % 3 == 2, 0)
    connect_rules = [f for f in plan["faults"] if f.get("kind") == "connect"]

    def connect_rule(att):
        for f in connect_rules:
            if "from_t" in f:
                if att["t"] >= f["from_t"] and att["host"] != f.get("not_host") and f.get("only_host") in (None, att["host"]):
                    return {"kind": f["what"]}
            elif f["nth"] <= att["n"] < f["nth"] + f.get("count", 1):
                return {"kind": f["what"]}
        return None

    if connect_rules:
        net.connect_rules.append(connect_rule)
    client = w.make_client("p0")
    timeout = cfg["client"]["timeout_ms"] / 1000.0
    reactor = w.reactors["p0"]
    state = {"closed": False, "close_w": None, "close_seq": None, "ncalls": 0, "workload": False}
    calls = {}
    cache_versions = []  # (logseq, {tp: node_id|None})

    def snap_cache():
        try:
            v = {(k.topic, k.partition): (b.node_id if b is not None else None) for k, b in client.topics_to_brokers.items()}
            gv = {g: (b.node_id if b is not None else None) for g, b in client._group_to_coordinator.items()}
        except Exception:
            return
        if not cache_versions or cache_versions[-1][1] != v or cache_versions[-1][2] != gv:
            cache_versions.append((len(sim.log), v, gv))

    sim.after_event.append(snap_cache)
    # ... and whenever the client writes: several answers can be merged inside one event, and what a request was routed by
    # is the cache as it stood when its frame went out, which may be gone again by the end of that event
    _record = sim.record

    def record_and_snap(kind, *a):
        # (not only writes: a request routed inside the event - queued on a broker client that is still connecting - is
        # written much later; the connection attempt it causes is recorded at once)
        snap_cache()
        return _record(kind, *a)

    sim.record = record_and_snap

    after_call_ops = {}
    for o_ in plan["ops"]:
        if "after_call" in o_:
            after_call_ops.setdefault(o_["after_call"], []).append(o_)
    on_call_ops = {}
    for o in plan["ops"]:
        if "on" in o:
            on_call_ops.setdefault(o["on"], []).append(o)

    def payload_for(o, tp, j):
        kind = o["kind"]
        topic, part = tp
        if kind == "produce":
            msgs = [b"c%d.%d.%d:" % (o["id"], j, i) + b"." * o["size"] for i in range(o["nmsg"])]
            key = None if o["nullkey"] else b"k%d.%d" % (o["id"], j)
            mset = create_message_set([SendRequest(topic, key, msgs, None)], o["codec"], magic=0)
            return ProduceRequest(topic, part, mset), [(key, m) for m in msgs]
        if kind == "fetch":
            return FetchRequest(topic, part, o["offset"], o["max_bytes"]), None
        if kind == "offsets":
            return OffsetRequest(topic, part, o["time"], o["max_offsets"]), None
        if kind == "offset_fetch":
            return OffsetFetchRequest(topic, part), None
        if kind == "offset_commit":
            md = o["metadata"].encode("utf-8") if o["metadata"] is not None else None
            return OffsetCommitRequest(topic, part, o["offset"], -1, md), None
        raise HarnessError(kind)

    def do_op(o):
        if o["op"] == "close":
            if state["closed"]:
                return
            sim.record("op", "close")
            sim.mark("op", "close")
            state["outstanding_at_close"] = [c for c in calls.values() if c["w"] is not None and not c["w"].fires]
            state["closed"] = True
            state["close_seq"] = len(sim.log) - 1
            state["close_t"] = sim.now
            state["conns_at_close"] = [c for c in net.conns if c.pid == "p0" and not c.client_lost]
            state["bootstrapping_at_close"] = any(c.host == "kafka" for c in state["conns_at_close"]) or \
                any(a["pid"] == "p0" and a["outcome"] is None for a in net.attempts)
            net.after_close_pids["p0"] = True
            try:
                d = client.close()
            except Exception as e:
                res.violate("C20", "C20:close-raised:%s" % type(e).__name__, repr(e), sim)
                return
            state["close_w"] = watch(d, "close", sim)
            # every call outstanding at close() has failed within that instant
            if "after_call" in o:
                # close() was called from inside a result callback, that is from inside the client's own call stack:
                # "at once" is when that stack has unwound (still the same instant)
                def settle():
                    state["unfailed_after_close"] = [c["id"] for c in state["outstanding_at_close"] if not c["w"].fires]
                    state["cache_after_close"] = (dict(client.topic_partitions), dict(client.topics_to_brokers), dict(client.topic_errors))
                sim.after(0.0, settle)
                return
            state["unfailed_after_close"] = [c["id"] for c in state["outstanding_at_close"] if not c["w"].fires]
            state["cache_after_close"] = (dict(client.topic_partitions), dict(client.topics_to_brokers), dict(client.topic_errors))
            return
        kind = o["kind"]
        snap_cache()  # (a call issued from inside a callback sees the cache as it is now, not as it was after the last event)
        rec = {"id": o["id"], "kind": kind, "o": o, "t": sim.now, "seq": len(sim.log), "w": None, "payloads": None, "after_close": state["closed"],
               "clients_before": dict(client.clients or {}), "brokers_before": _known_brokers(client), "cache_at_call": len(cache_versions) - 1, "timers_before": len([dc for dc in reactor.pending("client.py")]),
               "versions_known": client._api_versions is not None}
        calls[o["id"]] = rec
        sim.record("op", "call", o["id"], kind)
        sim.mark("op", kind)
        k = state["ncalls"]
        state["ncalls"] += 1
        try:
            if kind in ("produce", "fetch", "offsets", "offset_fetch", "offset_commit"):
                pls = []
                kvs = {}
                seen = set()
                for j, tp in enumerate(o["tps"]):
                    if tuple(tp) in seen:
                        continue
                    seen.add(tuple(tp))
                    p, kv = payload_for(o, tuple(tp), j)
                    pls.append(p)
                    kvs[tuple(tp)] = kv
                rec["payloads"] = pls
                rec["kvs"] = kvs
                if kind == "produce":
                    d = client.send_produce_request(pls, acks=o["acks"], timeout=500, fail_on_error=False)
                elif kind == "fetch":
                    d = client.send_fetch_request(pls, fail_on_error=False, max_wait_time=o["max_wait"], min_bytes=o["min_bytes"])
                elif kind == "offsets":
                    d = client.send_offset_request(pls, fail_on_error=False)
                elif kind == "offset_fetch":
                    d = client.send_offset_fetch_request(o["group"], pls, fail_on_error=False)
                else:
                    d = client.send_offset_commit_request(o["group"], pls, fail_on_error=False, group_generation_id=o["generation"], consumer_id=o["member"])
            elif kind == "metadata":
                d = client.load_metadata_for_topics(*o["topics"])
            elif kind == "metadata_all":
                d = client.load_metadata_for_topics()
            elif kind == "coordinator":
                d = client.load_coordinator_for_group(o["group"])
            elif kind == "heartbeat":
                d = client._send_request_to_coordinator(o["group"], _HeartbeatRequest(o["group"], o["generation"], o["member"]),
                                                        encoder_fn=KafkaCodec.encode_heartbeat_request, decode_fn=KafkaCodec.decode_heartbeat_response)
            elif kind == "join":
                md = KafkaCodec.encode_join_group_protocol_metadata(0, [t["name"] for t in cfg["topics"]], b"")
                d = client._send_request_to_coordinator(o["group"], _JoinGroupRequest(o["group"], 1000, o["member"], "consumer", [_JoinGroupRequestProtocol("consumer", md)]),
                                                        encoder_fn=KafkaCodec.encode_join_group_request, decode_fn=KafkaCodec.decode_join_group_response,
                                                        min_timeout=35.0)
            else:
                raise HarnessError(kind)
        except HarnessError:
            raise
        except Exception as e:
            rec["raised"] = e
            sim.record("call_raised", o["id"], type(e).__name__)
            return

        def fired(wd, rec=rec):
            if rec["kind"] == "fetch" and wd.ok:
                # the application iterates what it fetched (lazily decoded message sets)
                n = 0
                for r in wd.value:
                    try:
                        for _om in r.messages:
                            n += 1
                            if n > 100000:
                                res.violate("C12", "C12:unbounded-output-from-bounded-input", "more than 100000 messages decoded from one fetch response", sim)
                                break
                    except Exception as e:
                        rec.setdefault("iter_errors", []).append(type(e).__name__)
            if rec["kind"] == "metadata_all" and wd.ok and client.clients is not None:
                # broker clients that existed when the refresh was asked for and are still the same objects right after the
                # merge (a request in progress may legitimately open a *new* client for an address it still knows)
                rec["clients_after"] = sorted(n for n, o in rec.get("clients_before", {}).items() if client.clients.get(n) is o)
            try:
                rec["routed_topics_at_done"] = set(k.topic for k in (client.topics_to_brokers or {}))
                rec["routed_groups_at_done"] = set(client._group_to_coordinator or {})
            except Exception:
                pass
            rec["t_done"] = wd.t
            rec["seq_done"] = wd.seq
            rec["timers_at_done"] = len(reactor.pending("client.py"))
            rec["open_at_done"] = sum(1 for c in calls.values() if c["w"] is not None and not c["w"].fires and c is not rec)
            # the application reacting from inside the result callback: another call, or close()
            for oo in after_call_ops.pop(o["id"], ()):
                res.probe("op_from_inside_a_result_callback_" + oo["op"])
                do_op(oo)

        rec["w"] = watch(d, "call#%d" % o["id"], sim, fired, keep_failure=True)
        rec["w"].d = d
        for oo in on_call_ops.pop(k, ()):
            sim.after(oo["delay"], do_op, oo)

    def start_workload():
        state["workload"] = True
        state["t0"] = sim.now
        for o in plan["ops"]:
            if "t" in o:
                sim.at(sim.now + o["t"], do_op, o)
        sim.at(sim.now + plan["t_end"], w.heal)
        for o in plan.get("post", ()):
            sim.at(sim.now + plan["t_end"] + o["dt"], do_op, o)

    if cfg["warm"]:
        d0 = client.load_metadata_for_topics()
        d0.addErrback(lambda f: None)
        for g in GROUPS:
            d0.addBoth(lambda _r, g=g: client.load_coordinator_for_group(g))
            d0.addErrback(lambda f: None)
        d0.addBoth(lambda _r: sim.after(0.2, start_workload))
        real_match = cl._match_rule

        def gated(node, key, body):
            if not state["workload"]:
                return None
            return real_match(node, key, body)

        cl._match_rule = gated
    else:
        sim.at(0.0, start_workload)

    def run_until(t):
        try:
            sim.run(until=t)
        except HarnessError as e:
            res.harness_error = repr(e)

    # hostile responses: budget the work of each delivery event deterministically (call count and allocation peak)
    budget = {"worst": (0, 0), "calls": 0}
    if cfg["variant"] == "garbage":
        real_hook = net.on_client_data

        def counting(conn, data, before):
            if before:
                budget["calls"] = 0
                budget["len"] = len(conn.client_received)
                tracemalloc.start()

                def prof(frame, event, arg):
                    if event == "call":
                        budget["calls"] += 1

                sys.setprofile(prof)
            else:
                sys.setprofile(None)
                _cur, peak = tracemalloc.get_traced_memory()
                tracemalloc.stop()
                n = max(1, budget["len"])
                if budget["calls"] > 30000 + 400 * n or peak > 2_000_000 + 600 * n:
                    res.violate("C12", "C12:decoding-cost-not-proportional-to-input", "delivery of %d buffered bytes cost %d Python calls, peak %d bytes" % (
                        n, budget["calls"], peak), sim)
                res.oblige("C12")
            if real_hook is not None:
                real_hook(conn, data, before)

        net.on_client_data = counting

    while not state["workload"] and sim.now < 60 and res.harness_error is None:
        run_until(sim.now + 0.5)
    if not state["workload"]:
        res.harness_error = "warm-up never finished"
        return w.finish()
    run_until(state["t0"] + plan["t_end"] + 0.001)
    allow = max(45.0, 4 * timeout + 40.0)
    tail = sim.now + allow
    while sim.now < tail and not sim.overrun and not sim.livelock and res.harness_error is None:
        run_until(sim.now + 5.0)
        if all(c["w"] is None or c["w"].fires for c in calls.values()) and not reactor.pending("client.py") and \
                all(o["id"] in calls for o in plan.get("post", ())):
            break
        # a call issued from the result callback of a long call (a join that timed out) starts late: it gets the same allowance
        late = [c["t"] for c in calls.values() if c["w"] is not None and not c["w"].fires]
        if late:
            tail = max(tail, max(late) + allow)
    unresolved = [c["id"] for c in calls.values() if c["w"] is not None and not c["w"].fires]
    if not state["closed"]:
        # what the client believes right before the final close (C08 compares it with the last metadata answers)
        try:
            state["final_cache"] = {
                "seq": len(sim.log),
                "partitions": {t: list(v) for t, v in client.topic_partitions.items()},
                "leaders": {(k.topic, k.partition): (b.node_id if b is not None else -1) for k, b in client.topics_to_brokers.items()},
                "errors": dict(client.topic_errors),
                "clients": sorted(client.clients) if client.clients else [],
            }
        except Exception:
            pass
    if not state["closed"]:
        sim.at(sim.now + 0.001, do_op, {"op": "close"})
    run_until(sim.now + 60.0)
    sys.setprofile(None)
    if res.harness_error is None and sim.harness_errors:
        res.harness_error = sim.harness_errors[0]
    _oracles(w, plan, res, client, calls, state, cache_versions, unresolved, timeout)
    return w.finish()


def _oracles(w, plan, res, client, calls, state, cache_versions, unresolved, timeout):
    from afkak.common import (ClientError, FailedPayloadsError, KafkaError, KafkaUnavailableError, RequestTimedOutError)
    from twisted.internet.defer import CancelledError

    sim, cl, net = w.sim, w.cluster, w.net
    cfg = plan["cfg"]
    variant = cfg["variant"]
    reactor = w.reactors["p0"]
    APIKEY = {"produce": 0, "fetch": 1, "offsets": 2, "offset_fetch": 9, "offset_commit": 8}
    # frames written by the client, per connection, with broker node
    node_of_addr = {}
    for b in cl.brokers.values():
        node_of_addr[(b.host, b.port)] = b.node
    written = []
    for c in net.conns:
        if c.pid != "p0":
            continue
        for frame, t in client_frames(c):
            try:
                hdr, body = kwire.parse_request(frame)
            except kwire.WireError:
                continue
            written.append({"t": t, "cid": c.cid, "host": c.host, "port": c.port, "hdr": hdr, "body": body})
    garbage_used = any(k == "rule_garbage" for k in net.fault_counts)

    # ---------------- C08: group requests find the coordinator again once the faults are over ----------------
    posts = [calls[o["id"]] for o in plan.get("post", ()) if o["id"] in calls]
    if posts:
        res.oblige("C08")
        last = posts[-1]
        wd = last["w"]
        ok_ = wd is not None and wd.fires == 1 and wd.ok
        if not ok_ and len(posts) == len(plan.get("post", ())):
            res.violate("C08", "C08:group-request-after-faults-ended-did-not-succeed:%s" % (wd.err if wd is not None and wd.fires else "unresolved"),
                        "%d group requests issued one after the other from %.1f s after the last fault; the last one: %r" % (
                            len(posts), plan["post"][0]["dt"], wd.value if wd is not None and wd.fires else None))
            # the routing half of the same history (C07): the lookups made for these requests named the coordinator's
            # present address, and yet no group request was ever written to a connection to it
            t_first = state["t0"] + plan["t_end"] + plan["post"][0]["dt"]
            named = set()
            for e in cl.reqlog:
                if e["key"] == kwire.FIND_COORDINATOR and e.get("resp_body") and e.get("delivered_seq") is not None and e.get("resp_t", 0) >= t_first \
                        and e["resp_body"]["error"] == 0 and e.get("act") != "garbage":
                    named.add((e["resp_body"]["host"], e["resp_body"]["port"]))
            if named:
                res.oblige("C07")
                reached = [fr for fr in written if fr["t"] >= t_first and fr["hdr"]["key"] == 9 and (fr["host"], fr["port"]) in named]
                if not reached:
                    res.violate("C07", "C07:group-request-never-sent-to-the-coordinator-the-lookup-named",
                                "lookups after the last fault named %r; no OffsetFetch was written to a connection to it" % (sorted(named),))
        elif ok_:
            res.probe("group_request_recovered_after_readdress")

    # ---------------- C11: every call resolves; timers released ----------------
    for cid_ in unresolved:
        c = calls[cid_]
        res.violate("C11", "C11:call-never-resolved:%s" % c["kind"], "call %d (%s) still pending %.0f s after it was issued" % (cid_, c["kind"], sim.now - c["t"]))
    if not any(not (c["w"] is None or c["w"].fires) for c in calls.values()):
        res.oblige("C11")
    for c in calls.values():
        if c["w"] is None or not c["w"].fires:
            continue
        wd = c["w"]
        # whenever no call is outstanding, no delayed call created by client.py remains
        if c.get("open_at_done") == 0 and c.get("timers_at_done", 0) > 0 and not state["closed"]:
            # (bootstrap timeouts of a cancelled operation are client.py timers too; judged only without faults on connects)
            res.violate("C11", "C11:timer-left-after-last-call-resolved", "%d client.py timers pending when call %d resolved and nothing else was outstanding" % (
                c["timers_at_done"], c["id"]))
        if wd.ok is False and isinstance(wd.value, RequestTimedOutError):
            res.probe("timed_out")
    # single-broker calls with a warm cache: bounded by the timeout
    for c in calls.values():
        wd = c["w"]
        if wd is None or not wd.fires or c["after_close"]:
            continue
        if (c["kind"] not in APIKEY and c["kind"] not in ("heartbeat", "join")) or not cfg["warm"]:
            continue
        o = c["o"]
        # all payloads routable from the cache as it stood at call time, and no metadata traffic needed
        cv = cache_versions[c["cache_at_call"]] if 0 <= c["cache_at_call"] < len(cache_versions) else None
        if cv is None:
            continue
        if c["kind"] in ("offset_fetch", "offset_commit", "heartbeat", "join"):
            routable = cv[2].get(o["group"]) is not None
        else:
            routable = all(cv[1].get(tuple(tp)) is not None for tp in o["tps"])
        if not routable:
            continue
        if c["kind"] in ("produce", "fetch") and not c["versions_known"]:
            continue  # version discovery (its own, separately bounded requests) precedes the broker request
        res.oblige("C11")
        bound = max(timeout, 35.0) if c["kind"] == "join" else timeout  # the stated longer minimum for group joins
        limit = c["t"] + bound + cfg.get("late_timers", 0.0)
        if wd.t > limit + 1e-6:
            res.violate("C11", "C11:resolved-later-than-the-timeout%s" % (":group-join" if c["kind"] == "join" else ""),
                        "%s call %d issued %.4f resolved %.4f, bound %.3f" % (c["kind"], c["id"], c["t"], wd.t, bound))
        elif c["kind"] == "join":
            res.probe("join_bounded_by_35s_minimum")
    # disconnect-on-timeout: the silent connection is dropped in the timeout instant; what else was unanswered on it is re-sent
    if cfg["client"].get("disconnect_on_timeout") and not garbage_used:
        lose_t, up_t = {}, {}
        for e in sim.log:
            if e[2] == "c_lose":
                lose_t.setdefault(e[3], e[1])
            elif e[2] == "connected":
                up_t[e[6]] = e[1]
        answered = {}
        for e in cl.reqlog:
            if e.get("delivered_t") is not None:
                answered[(e["cid"], e["corr"])] = e["delivered_t"]
        close_t = state.get("close_t")
        late = cfg.get("late_timers", 0.0)
        conn_by_id = {cc.cid: cc for cc in net.conns}
        for c in calls.values():
            wd = c["w"]
            akey = dict(APIKEY, heartbeat=12, join=11).get(c["kind"])
            if wd is None or not wd.fires or wd.ok is not False or akey is None:
                continue
            timed = isinstance(wd.value, RequestTimedOutError)
            if isinstance(wd.value, FailedPayloadsError):
                try:
                    timed = any(isinstance(getattr(f_, "value", f_), RequestTimedOutError) for _p, f_ in wd.value.failed_payloads)
                except Exception:
                    timed = False
            if not timed:
                continue
            T = wd.t
            if close_t is not None and close_t <= T:
                continue
            mine = [f for f in written if f["hdr"]["key"] == akey and c["t"] - 1e-9 <= f["t"] <= c["t"] + 1e-9
                    and not (f["hdr"]["key"] == 0 and f["body"].get("acks") == 0)
                    and answered.get((f["cid"], f["hdr"]["correlation"]), T + 1) > T and lose_t.get(f["cid"], T + 1) >= T - 1e-9
                    and (conn_by_id[f["cid"]].lost_at is None or conn_by_id[f["cid"]].lost_at >= T - 1e-9)]
            conns_ = sorted(set(f["cid"] for f in mine))
            if len(conns_) != 1:
                continue  # not written at once (no connection yet), or several brokers: not attributable black-box
            k = conns_[0]
            res.oblige("C11")
            if not (k in lose_t and T - 1e-9 <= lose_t[k] <= T + 1e-9):
                res.violate("C11", "C11:silent-connection-not-dropped-on-timeout", "call %d timed out at %.6f; connection %d was %s" % (
                    c["id"], T, k, "closed at %.6f" % lose_t[k] if k in lose_t else "kept"))
                continue
            res.probe("disconnected_on_timeout")
            host_port = [(f["host"], f["port"]) for f in written if f["cid"] == k][0]
            later = sorted(cc.cid for cc in net.conns if cc.cid > k and (cc.host, cc.port) == host_port and up_t.get(cc.cid, -1.0) >= T)
            if not later:
                continue
            k2 = later[0]
            if close_t is not None and close_t <= up_t[k2] + 0.01:
                continue
            for f in written:
                if f["cid"] != k or f in mine or f["t"] > T:
                    continue
                x = f["hdr"]["correlation"]
                if answered.get((k, x), T + 1) <= T:
                    continue
                if f["hdr"]["key"] == 0 and f["body"].get("acks") == 0:
                    continue  # expects no reply: written once, never again
                if f["t"] + timeout <= up_t[k2] + 0.01 or f["t"] + timeout <= T + 1e-9:
                    continue  # its own deadline passes before the new connection is up
                res.oblige("C11")
                if not any(g["cid"] == k2 and g["hdr"]["correlation"] == x for g in written):
                    res.violate("C11", "C11:unanswered-request-not-resent-after-timeout-disconnect",
                                "request %d (%s) written on connection %d at %.6f was unanswered when the connection was dropped at %.6f; connection %d (up %.6f) never carried it" % (
                                    x, kwire.API_NAMES.get(f["hdr"]["key"]), k, f["t"], T, k2, up_t[k2]))
                else:
                    res.probe("resent_after_timeout_disconnect")
    # ---------------- C07: routing and accounting ----------------
    for c in calls.values():
        if c["kind"] not in APIKEY or c["w"] is None or not c["w"].fires or c["after_close"] or garbage_used:
            continue  # (with hostile metadata answers the cache itself is garbage: routing is not judged there)
        wd = c["w"]
        key = APIKEY[c["kind"]]
        o = c["o"]
        uniq = []
        for tp in o["tps"]:
            if tuple(tp) not in uniq:
                uniq.append(tuple(tp))
        t1 = wd.t
        frames = [f for f in written if f["hdr"]["key"] == key and c["t"] - 1e-9 <= f["t"] <= t1 + 1e-9]
        # attribute frames to this call: produce by message content, others by time window and exclusivity
        mine = []
        for f in frames:
            tps_f = [(t["name"], p["partition"] if isinstance(p, dict) else p) for t in f["body"]["topics"] for p in t["partitions"]]
            if c["kind"] == "produce":
                ok = False
                for t in f["body"]["topics"]:
                    for p in t["partitions"]:
                        try:
                            ents, _ = kwire.parse_message_set(p["records"], True, 0, True)
                        except kwire.WireError:
                            continue
                        kv = [(x["key"], x["value"]) for x in kwire.leaves(ents)]
                        if kv and kv == c["kvs"].get((t["name"], p["partition"])):
                            ok = True
                if ok:
                    mine.append((f, tps_f))
            else:
                others = [x for x in calls.values() if x is not c and x["kind"] == c["kind"] and x["w"] is not None and
                          x["t"] <= f["t"] + 1e-9 and (not x["w"].fires or x["w"].t >= f["t"] - 1e-9)]
                if not others:
                    mine.append((f, tps_f))
                else:
                    mine = None
                    break
        if mine is None:
            continue  # concurrent calls of the same API: frames cannot be attributed black-box
        res.oblige("C07")
        # each payload carried by at most one frame; one frame per destination carrying only that destination's payloads
        carried = {}
        dests = {}
        for f, tps_f in mine:
            node = node_of_addr.get((f["host"], f["port"]))
            for tp in tps_f:
                carried.setdefault(tp, []).append((f["cid"], node, f["t"]))
            dests.setdefault((f["cid"]), []).append(f)
        for tp, lst in carried.items():
            if tp not in uniq:
                res.violate("C07", "C07:frame-carries-foreign-payload", "call %d: %s/%s on the wire was not among its payloads" % (c["id"], tp[0], tp[1]))
            conns = set(x[0] for x in lst)
            if len(lst) > 1 and len(conns) == 1:
                res.violate("C07", "C07:payload-in-two-frames", "call %d: %s/%d appears in %d frames on one connection" % (c["id"], tp[0], tp[1], len(lst)))
            # destination: a broker the client's own cache named for it at some instant between call and write
            for cid_, node, tw in lst:
                named = set()
                for q, v, gv in cache_versions:
                    if c["kind"] in ("offset_fetch", "offset_commit"):
                        named.add(gv.get(o["group"]))
                    else:
                        named.add(v.get(tp))
                if node is not None and node not in named:
                    res.violate("C07", "C07:payload-sent-to-broker-the-cache-never-named", "call %d: %s/%d went to node %r, cache named %r" % (
                        c["id"], tp[0], tp[1], node, sorted(x for x in named if x is not None)))
        # results
        if wd.ok:
            if c["kind"] == "produce" and o["acks"] == 0:
                # no responses exist: success means every payload was handed to a connection
                missing = [tp for tp in uniq if tp not in carried]
                if missing:
                    res.violate("C07", "C07:payload-unaccounted-on-success:acks0", "call %d (acks=0) succeeded but payloads %r were never written to any broker" % (c["id"], missing[:5]))
                continue
            got = [(r.topic, r.partition) for r in wd.value]
            want = [tp for tp in uniq if tp in set(got)]
            if got != want:
                res.violate("C07", "C07:results-not-in-payload-order", "call %d: results %r, payloads %r" % (c["id"], got[:6], uniq[:6]))
            if not garbage_used and set(got) != set(uniq) and len(got) < len(uniq):
                res.violate("C07", "C07:payload-unaccounted-on-success", "call %d: payloads %r, results %r" % (c["id"], uniq[:6], got[:6]))
        elif isinstance(wd.value, FailedPayloadsError):
            responses, failed = wd.value.args[0], wd.value.args[1]
            got = [(r.topic, r.partition) for r in responses]
            fl = [(p.topic, p.partition) for p, _f in failed]
            if sorted(got + fl) != sorted(uniq) and not (c["kind"] == "produce" and o["acks"] == 0) and not garbage_used:
                res.violate("C07", "C07:failed-payloads-error-does-not-partition-the-input", "call %d: responses %r + failed %r != payloads %r" % (
                    c["id"], got[:6], fl[:6], uniq[:6]))
            if c["kind"] == "produce" and o["acks"] == 0 and not set(fl) <= set(uniq):
                res.violate("C07", "C07:failed-payloads-error-does-not-partition-the-input", "call %d acks=0: failed %r not among payloads" % (c["id"], fl[:6]))
            order = [tp for tp in uniq if tp in set(got)]
            if got != order:
                res.violate("C07", "C07:results-not-in-payload-order", "call %d (partial failure): responses %r, payloads %r" % (c["id"], got[:6], uniq[:6]))
            res.probe("partial_failure")
    # a broker-agnostic request nobody cancelled does not end as a cancellation (None from load_metadata_for_topics is
    # its way of saying "cancelled"): when the broker it waits on goes away it moves on to the next candidate
    for c in calls.values():
        wd = c["w"]
        if c["kind"] not in ("metadata", "metadata_all", "coordinator") or wd is None or not wd.fires or c["after_close"]:
            continue
        if state["closed"] and state.get("close_t", 1e18) <= wd.t:
            continue
        res.oblige("C07")
        gave_up = (wd.ok and wd.value is None and c["kind"] != "coordinator") or (wd.ok is False and wd.err == "CancelledError")
        if gave_up:
            res.violate("C07", "C07:broker-agnostic-request-given-up-as-cancelled:%s" % c["kind"],
                        "call %d (%s) ended as a cancellation (%r) although neither it nor the client was cancelled or closed" % (c["id"], c["kind"], wd.value))
    # broker-agnostic requests: unavailable only after every known broker and every bootstrap host was tried
    for c in calls.values():
        wd = c["w"]
        if c["kind"] not in ("metadata", "metadata_all", "coordinator") or wd is None or not wd.fires or wd.ok or c["after_close"]:
            continue
        if not isinstance(wd.value, KafkaUnavailableError) or state["closed"] and state.get("close_t", 1e18) <= wd.t:
            continue
        res.oblige("C07")
        atts = [a for a in net.attempts if a["pid"] == "p0" and c["t"] - 1e-9 <= a["t"] <= wd.t + 1e-9 and a["host"] == "kafka"]
        if not atts:
            res.violate("C07", "C07:unavailable-before-bootstrap-hosts-were-tried", "call %d failed with KafkaUnavailableError without a bootstrap connection attempt" % c["id"])
        # ... and every broker known when the call began (and still known when it ended) was tried: a request written to a
        # connection to it, or a connection attempt to its address, during the call - or one was already under way / in
        # back-off when the call began (then the request waited in that broker client's queue)
        now_known = _known_brokers(client)
        for n, addr in sorted(c.get("brokers_before", {}).items()):
            if now_known.get(n) != addr:
                continue
            in_call = [a for a in net.attempts if a["pid"] == "p0" and (a["host"], a["port"]) == addr and c["t"] - 1e-9 <= a["t"] <= wd.t + 1e-9]
            wrote = [f for f in written if (f["host"], f["port"]) == addr and c["t"] - 1e-9 <= f["t"] <= wd.t + 1e-9]
            before = [a for a in net.attempts if a["pid"] == "p0" and (a["host"], a["port"]) == addr and a["t"] < c["t"]]
            busy = bool(before) and before[-1]["outcome"] not in ("ok",)  # connecting or backing off when the call began
            if in_call or wrote or busy:
                continue
            res.violate("C07", "C07:unavailable-although-a-known-broker-was-never-tried", "call %d (%s) failed with KafkaUnavailableError; broker %d at %s:%d was known throughout and "
                        "saw neither a request nor a connection attempt" % (c["id"], c["kind"], n, addr[0], addr[1]))
            break
    # ---------------- C05: decoded results equal what the independent codec encoded ----------------
    if not garbage_used:
        _check_c05(w, res, calls, APIKEY)
    # ---------------- C08: cache equals the metadata answer ----------------
    if not garbage_used:
        _check_c08(w, res, client, calls, state)
        _check_c08_invalidation(w, res, calls, APIKEY)
    # ---------------- C20 ----------------
    if state["close_seq"] is not None:
        res.oblige("C20")
        cw = state["close_w"]
        if state.get("unfailed_after_close"):
            how = "bootstrapping" if state.get("bootstrapping_at_close") else "requests-in-flight"
            res.violate("C20", "C20:call-outstanding-at-close-not-failed-at-once:%s" % how, "calls %r still pending when close() returned" % state["unfailed_after_close"][:5])
        for c in calls.values():
            if c["after_close"]:
                wd = c["w"]
                if "raised" in c:
                    continue
                if wd is None or not wd.fires or wd.ok:
                    res.violate("C20", "C20:operation-after-close-did-not-fail:%s" % c["kind"], "call %d (%s) started after close(): %s" % (
                        c["id"], c["kind"], "succeeded" if wd is not None and wd.fires else "unresolved"))
        if net.connects_after_close:
            how = "bootstrapping" if state.get("bootstrapping_at_close") else "other"
            res.violate("C20", "C20:connection-attempt-after-close:%s" % how, "%r" % net.connects_after_close[:3])
        if net.writes_after_close:
            how = "bootstrapping" if state.get("bootstrapping_at_close") else "other"
            res.violate("C20", "C20:bytes-written-after-close:%s" % how, "%r" % net.writes_after_close[:3])
        if cw is not None:
            if cw.fires != 1:
                res.violate("C20", "C20:close-deferred-fired-%d-times" % cw.fires, "")
            else:
                last_lost = max([c.lost_at for c in state["conns_at_close"] if c.lost_at is not None] + [state["close_t"]])
                open_ = [c.cid for c in state["conns_at_close"] if not c.client_lost]
                if open_:
                    res.violate("C20", "C20:connection-not-closed", "connections %r still open at the end" % open_)
                elif cw.t < last_lost - 1e-9:
                    late = [c for c in state["conns_at_close"] if c.lost_at is not None and c.lost_at > cw.t + 1e-9]
                    what = "bootstrap-connection" if all(c.host == "kafka" for c in late) else "broker-connection"
                    res.violate("C20", "C20:close-deferred-fired-before-last-connection-gone:%s" % what, "fired %.6f, last connectionLost %.6f" % (cw.t, last_lost))
                for c in state["conns_at_close"]:
                    if c.client_closed_by not in ("client", None) and c.lost_at is not None and c.lost_at > state["close_t"] + 1e-9:
                        pass
        tp, t2b, te = state.get("cache_after_close", ({}, {}, {}))
        if tp or t2b or te:
            res.violate("C20", "C20:metadata-not-cleared-by-close", "topic_partitions=%r" % (list(tp)[:3],))
        if client.topic_partitions or client.topics_to_brokers or client.topic_errors:
            how = "bootstrapping" if state.get("bootstrapping_at_close") else "other"
            res.violate("C20", "C20:metadata-repopulated-after-close:%s" % how, "topic_partitions=%r" % (list(client.topic_partitions)[:3],))
        left = [c.cid for c in net.conns if c.pid == "p0" and not c.client_lost]
        if left:
            res.violate("C20", "C20:connection-left-open", "%r" % left)
    for where, etype, msg, frames in sim.uncaught:
        if etype == "AlreadyCalledError":
            res.violate("C20", "C20:second-fire-attempt", "%s %r" % (where, frames))
        if where == "timer:client.py":
            # a request timer that outlived its request (or never had one) and blew up when it fired
            res.violate("C11", "C11:request-timer-raised:%s" % etype, "a delayed call created by client.py raised %s: %s" % (etype, msg))
    w.check_wire("C04")
    _check_c04_fields(w, res, calls, written, APIKEY)
    faults = set(net.fault_counts)
    inflight = any(k.startswith("rule_") or k in ("leader_move", "broker_down", "connect_refused", "connect_blackhole") for k in faults)
    for p in ("C07", "C08", "C11", "C20", "C05", "C04", "C12"):
        res.nontrivial[p] = bool(res.obligations.get(p)) and (inflight or p in ("C05", "C04", "C20"))


def _check_c05(w, res, calls, APIKEY):
    """Compare what each call returned with what the broker's independent encoder put into the responses."""
    cl = w.cluster
    by_key = {}
    for e in cl.reqlog:
        if e.get("resp_body") is not None and e.get("delivered_seq") is not None and e.get("act") not in ("garbage", "cut_mid"):
            by_key.setdefault(e["key"], []).append(e)
    for c in calls.values():
        wd = c["w"]
        if wd is None or not wd.fires or not wd.ok or c["kind"] not in APIKEY:
            continue
        if c["kind"] == "produce" and c["o"]["acks"] == 0:
            continue
        key = APIKEY[c["kind"]]
        for r in wd.value:
            # the broker-side truth for this (topic, partition): last response delivered within the call's window
            cands = []
            for e in by_key.get(key, []):
                if not (c["seq"] <= e["delivered_seq"] <= wd.seq):
                    continue
                for t in e["resp_body"]["topics"]:
                    if t["name"] != r.topic:
                        continue
                    for p in t["partitions"]:
                        if p["partition"] == r.partition:
                            cands.append((e, p))
            if len(cands) != 1:
                continue  # concurrent calls of the same API on that partition: responses cannot be attributed black-box
            e, p = cands[0]
            res.oblige("C05")
            if r.error != p["error"]:
                res.violate("C05", "C05:error-code-differs", "%s %s/%d: decoded error %r, encoded %r" % (c["kind"], r.topic, r.partition, r.error, p["error"]))
                continue
            if c["kind"] == "produce" and r.offset != p["offset"]:
                res.violate("C05", "C05:produce-offset-differs", "decoded %r encoded %r" % (r.offset, p["offset"]))
            elif c["kind"] == "offsets" and tuple(r.offsets) != tuple(p["offsets"]):
                res.violate("C05", "C05:list-offsets-differ", "decoded %r encoded %r" % (r.offsets, p["offsets"]))
            elif c["kind"] == "offset_fetch":
                md = r.metadata.decode("utf-8") if isinstance(r.metadata, bytes) else r.metadata
                if r.offset != p["offset"] or (md or "") != (p["metadata"] or ""):
                    res.violate("C05", "C05:offset-fetch-differs", "decoded %r/%r encoded %r/%r" % (r.offset, r.metadata, p["offset"], p["metadata"]))
            elif c["kind"] == "fetch":
                hw = getattr(r, "highwaterMark", None)
                if hw is not None and hw != p["hwm"]:
                    res.violate("C05", "C05:fetch-high-watermark-differs", "decoded %r encoded %r" % (hw, p["hwm"]))
    # a call must not fail *decoding* when every response the broker sent in the run was well formed
    malformed = any(k in ("rule_garbage", "hostile_message_size", "rule_cut_mid", "corrupt_stored_message") for k in w.net.fault_counts)
    if not malformed:
        for c in calls.values():
            wd = c["w"]
            if wd is None or not wd.fires or wd.ok:
                continue
            res.oblige("C05")
            # (argument validation raises ValueError/TypeError before anything is sent; those are not decoding)
            if wd.err in ("BufferUnderflowError", "ProtocolError", "ChecksumError", "InvalidMessageError", "UnsupportedCodecError", "error", "IndexError",
                          "UnicodeDecodeError"):
                res.violate("C05", "C05:well-formed-response-not-decoded:%s:%s" % (c["kind"], wd.err), "call %s failed with %r although no malformed byte was sent" % (
                    c["id"], wd.value))
    # metadata cache content versus the metadata frames is C08's job; ApiVersions:
    client = w.clients["p0"]
    av = client._api_versions
    tables = [[(v["key"], v["min"], v["max"]) for v in e["resp_body"]["versions"]] for e in by_key.get(kwire.API_VERSIONS, [])
              if e["resp_body"]["error"] == 0]
    if av not in (None, 0) and tables:
        try:
            got = [(v.api_key, v.min_version, v.max_version) for v in av]
        except Exception:
            got = None
        if got is not None:
            res.oblige("C05")
            if got not in tables:  # (brokers may advertise different tables: the client holds one of the answers it was given)
                res.violate("C05", "C05:api-versions-differ", "decoded %r, encoded by the brokers: %r" % (got[:4], [t[:4] for t in tables[:2]]))


def _check_c08_invalidation(w, res, calls, APIKEY):
    """A not-leader / unknown-partition answer (coordinator: not-coordinator / not-available) invalidates the cached
    routing: when the call that received it completes, the topic (group) is no longer routable from the cache - whatever
    fail_on_error says - unless a metadata (coordinator) answer that came after it has re-resolved it."""
    cl = w.cluster
    timeout = w.cfg["client"]["timeout_ms"] / 1000.0
    ordered = [c for c in calls.values() if c["w"] is not None and c["w"].fires and c["kind"] in APIKEY and not c["after_close"]]
    for c in ordered:
        wd = c["w"]
        if "routed_topics_at_done" not in c:
            continue
        if wd.ok is False and wd.err in ("TypeError", "AttributeError"):
            continue  # an error code no broker sends for this API (coordinator errors on a produce ...) derailed the handling
        key = APIKEY[c["kind"]]
        # only when no other call of this API was outstanding meanwhile: then every answer in the window is this call's
        if any(o is not c and o["kind"] == c["kind"] and o["seq"] <= wd.seq and (not o["w"].fires or o["w"].seq >= c["seq"]) for o in calls.values()
               if o["w"] is not None):
            continue
        for e in cl.reqlog:
            if e["key"] != key or e.get("resp_body") is None or e.get("delivered_seq") is None or e.get("act") in ("garbage", "cut_mid"):
                continue
            if not (c["seq"] <= e["delivered_seq"] <= wd.seq) or e["delivered_t"] - c["t"] >= timeout - 1e-9:
                continue
            bad_topics = set()
            group_err = False
            for t in e["resp_body"].get("topics", []):
                for p in t["partitions"]:
                    if p.get("error") in (6, 3) and c["kind"] in ("produce", "fetch", "offsets"):
                        bad_topics.add(t["name"])
                    if p.get("error") in (15, 16) and c["kind"] in ("offset_fetch", "offset_commit"):
                        group_err = True
            for name in sorted(bad_topics):
                healed = any(m["key"] == kwire.METADATA and m.get("delivered_seq") is not None and e["delivered_seq"] < m["delivered_seq"] <= wd.seq and
                             m.get("resp_body") and any(tt["name"] == name for tt in m["resp_body"]["topics"]) for m in cl.reqlog)
                if healed:
                    continue
                res.oblige("C08")
                if name in c["routed_topics_at_done"]:
                    res.violate("C08", "C08:routing-not-invalidated-by-error-answer:%s" % c["kind"],
                                "call %d (%s, fail_on_error=False) was answered not-leader/unknown-partition for %s; the topic was still routed from the cache when the call completed" % (
                                    c["id"], c["kind"], name))
                    return
                res.probe("routing_invalidated_by_error_answer")
            if group_err:
                g = c["o"].get("group")
                healed = any(m["key"] == kwire.FIND_COORDINATOR and m.get("delivered_seq") is not None and e["delivered_seq"] < m["delivered_seq"] <= wd.seq for m in cl.reqlog)
                if not healed and g is not None:
                    res.oblige("C08")
                    if g in c["routed_groups_at_done"]:
                        res.violate("C08", "C08:coordinator-not-invalidated-by-error-answer:%s" % c["kind"],
                                    "call %d (%s) was answered not-coordinator/unavailable for group %s; the coordinator was still cached when the call completed" % (
                                        c["id"], c["kind"], g))
                        return


def _check_c08(w, res, client, calls, state):
    """Right before the final close, the client's view of every topic equals the last metadata answer delivered
    for that topic (partitions, leader per partition, topic error); stale entries must not survive an answer that
    no longer contains them."""
    cl, net, sim = w.cluster, w.net, w.sim
    fc = state.get("final_cache")
    if fc is None:
        return
    timeout = w.cfg["client"]["timeout_ms"] / 1000.0
    wrote_at = {}
    for c_ in net.conns:
        for frame, t in client_frames(c_):
            if len(frame) >= 8:
                import struct as _st
                wrote_at[(c_.cid, _st.unpack(">i", frame[4:8])[0])] = t
    metas = [e for e in cl.reqlog if e["key"] == kwire.METADATA and e.get("resp_body") is not None and e.get("delivered_seq") is not None
             and e.get("act") not in ("garbage", "cut_mid") and e["delivered_seq"] < fc["seq"]
             and e["delivered_t"] - wrote_at.get((e["cid"], e["corr"]), e["delivered_t"]) < timeout - 1e-9]
    last_for_topic = {}
    for e in sorted(metas, key=lambda e: e["delivered_seq"]):
        for t in e["resp_body"]["topics"]:
            last_for_topic[t["name"]] = (e, t)
    for name, (e, t) in last_for_topic.items():
        parts_now = fc["partitions"].get(name)
        want = sorted(p["id"] for p in t["partitions"])
        res.oblige("C08")
        if parts_now is None:
            # the topic's routing was invalidated (legitimate after NotLeader / a failed send) or the answer had no partitions
            stale = sorted(tp for tp in fc["leaders"] if tp[0] == name)
            if stale and not want:
                res.violate("C08", "C08:stale-leaders-survive-an-answer-without-partitions", "topic %s: last answer had no partitions (error %d) but leaders for %r are still cached" % (
                    name, t["error"], stale[:4]))
            continue
        if sorted(parts_now) != want:
            res.violate("C08", "C08:cached-partitions-differ-from-last-answer", "topic %s: cache %r, last metadata answer %r (topic error %d)" % (
                name, sorted(parts_now), want, t["error"]))
            continue
        extra = sorted(tp for tp in fc["leaders"] if tp[0] == name and tp[1] not in want)
        if extra:
            res.violate("C08", "C08:stale-leaders-for-vanished-partitions", "topic %s: leaders cached for %r which the last answer no longer lists" % (name, extra[:4]))
            continue
        for p in t["partitions"]:
            have = fc["leaders"].get((name, p["id"]), "absent")
            if have == "absent":
                continue
            if have != p["leader"]:
                res.violate("C08", "C08:cached-leader-differs-from-last-answer", "%s/%d: cache says node %r, last metadata answer %r" % (name, p["id"], have, p["leader"]))
                break
        if name in fc["errors"] and fc["errors"][name] != t["error"]:
            res.violate("C08", "C08:cached-topic-error-differs", "topic %s: cache %r answer %r" % (name, fc["errors"][name], t["error"]))
    # full refresh: broker clients for brokers missing from the answer are gone the moment the refresh completes
    for c in calls.values():
        if c["kind"] != "metadata_all" or "clients_after" not in c:
            continue
        wd = c["w"]
        ans = [e for e in metas if c["seq"] <= e["delivered_seq"] <= wd.seq and not e["body"]["topics"]]
        if len(ans) != 1 or not ans[0]["resp_body"]["brokers"]:
            continue
        nodes = set(b["node"] for b in ans[0]["resp_body"]["brokers"])
        res.oblige("C08")
        kept = [n for n in c["clients_after"] if n not in nodes]
        if kept:
            res.violate("C08", "C08:connection-to-removed-broker-kept", "full refresh answered brokers %r; broker clients for %r were kept" % (sorted(nodes), kept))
        else:
            res.probe("full_refresh_checked")


def _check_c04_fields(w, res, calls, written, APIKEY):
    """Field-by-field comparison of request frames with what the caller supplied (API sweep)."""
    for c in calls.values():
        if c["kind"] not in APIKEY or c.get("payloads") is None:
            continue
        key = APIKEY[c["kind"]]
        o = c["o"]
        t1 = c["w"].t if c["w"] is not None and c["w"].fires else 1e18
        for f in written:
            if f["hdr"]["key"] != key or not (c["t"] - 1e-9 <= f["t"] <= t1 + 1e-9):
                continue
            body = f["body"]
            others = [x for x in calls.values() if x is not c and x["kind"] == c["kind"] and x["t"] <= f["t"] + 1e-9 and
                      (x["w"] is None or not x["w"].fires or x["w"].t >= f["t"] - 1e-9)]
            if others and c["kind"] != "produce":
                continue
            res.oblige("C04")
            if c["kind"] == "fetch":
                if body["max_wait"] != o["max_wait"] or body["min_bytes"] != o["min_bytes"] or body["replica_id"] != -1:
                    res.violate("C04", "C04:fetch-field-mismatch", "wire %r/%r, caller %r/%r" % (body["max_wait"], body["min_bytes"], o["max_wait"], o["min_bytes"]))
                for t in body["topics"]:
                    for p in t["partitions"]:
                        if (p["offset"], p["max_bytes"]) != (o["offset"], o["max_bytes"]):
                            res.violate("C04", "C04:fetch-field-mismatch", "partition fields %r, caller %r" % ((p["offset"], p["max_bytes"]), (o["offset"], o["max_bytes"])))
            elif c["kind"] == "offsets":
                for t in body["topics"]:
                    for p in t["partitions"]:
                        if (p["time"], p["max_num"]) != (o["time"], o["max_offsets"]):
                            res.violate("C04", "C04:list-offsets-field-mismatch", "%r vs %r" % ((p["time"], p["max_num"]), (o["time"], o["max_offsets"])))
            elif c["kind"] == "offset_commit":
                if body["group"] != o["group"] or body["generation"] != o["generation"] or body["member"] != o["member"]:
                    res.violate("C04", "C04:offset-commit-field-mismatch", "group/generation/member %r" % ((body["group"], body["generation"], body["member"]),))
                for t in body["topics"]:
                    for p in t["partitions"]:
                        if p["offset"] != o["offset"] or p["metadata"] != o["metadata"] or p["timestamp"] != -1:
                            res.violate("C04", "C04:offset-commit-field-mismatch:%s" % ("null-vs-empty-metadata" if (p["metadata"] or "") == (o["metadata"] or "") else "value"),
                                        "offset/metadata on the wire %r/%r, caller %r/%r" % (p["offset"], p["metadata"], o["offset"], o["metadata"]))
            elif c["kind"] == "offset_fetch":
                if body["group"] != o["group"]:
                    res.violate("C04", "C04:offset-fetch-field-mismatch", "")
            elif c["kind"] == "produce":
                mine = False
                for t in body["topics"]:
                    for p in t["partitions"]:
                        try:
                            ents, _ = kwire.parse_message_set(p["records"], True, 0, True)
                        except kwire.WireError:
                            continue
                        kv = [(x["key"], x["value"]) for x in kwire.leaves(ents)]
                        if kv == c["kvs"].get((t["name"], p["partition"])):
                            mine = True
                if mine and (body["acks"] != o["acks"] or body["timeout"] != 500):
                    res.violate("C04", "C04:produce-field-mismatch", "acks/timeout %r/%r" % (body["acks"], body["timeout"]))
