"""Family CO: real Consumer (+ restarts after crash) + real KafkaClient against the simulated cluster.

Decides C02 (every message once, in order, never concurrently), C03 (commits never ahead of processing,
resume at committed+1), C13 (stop/shutdown leave nothing running, report once), C14 (retry delays, reset
policy, buffer growth), the consumer half of C12 (corrupted / truncated data is never delivered) and of C08
(recovery after leader moves), and C05's clause on absolute offsets inside compressed wrappers.
"""
import random

from . import kwire
from .cluster import E_OFFSET_OUT_OF_RANGE
from .core import HarnessError
from .kwire import Msg
from .observe import watch
from .refs import close
from .world import Observed, World

FAMILY = "co"
SHRINK_LISTS = ("faults", "ops", "proc")
FACTOR = 1.20205
TOPIC = "tc"
GROUP = "g1"

OFFSET_EARLIEST, OFFSET_LATEST, OFFSET_COMMITTED = -2, -1, -101


def simplify(plan):
    cfg = plan["cfg"]
    for key, val in (("shuffle_ties", False), ("seg", ["coalesce", "coalesce"]), ("lat", [0.0, 0.0])):
        if cfg.get(key) != val:
            c = dict(plan)
            c["cfg"] = dict(cfg)
            c["cfg"][key] = val
            yield c
    log = plan["log"]
    for i in range(len(log)):
        if len(log) > 1:
            c = dict(plan)
            c["log"] = log[:i] + log[i + 1:]
            yield c
    for i, seg in enumerate(log):
        if seg["n"] > 1:
            c = dict(plan)
            c["log"] = [dict(x) for x in log]
            c["log"][i]["n"] = max(1, seg["n"] // 2)
            yield c


# ---------------------------------------------------------------------------------------------
# plan generation
# ---------------------------------------------------------------------------------------------

def gen_plan(seed, tier="quick", variant=None):
    rng = random.Random(seed * 15485863 + 5)
    thorough = tier == "thorough"
    if variant is None:
        variant = rng.choice(["faulty", "faulty", "commit", "stop", "retry", "corrupt", "recovery", "clean", "restop"])
    nb = rng.randint(1, 3)
    instant = rng.random() < 0.25
    discover = rng.random() < 0.6
    group = variant in ("commit", "restop") or rng.random() < 0.5
    base = rng.choice([0, 0, 7, 1000, 2 ** 31, 2 ** 40])
    log = []
    nseg = rng.randint(0, 10 if thorough else 6)
    for _ in range(nseg):
        kind = rng.choice(["plain", "plain", "wrapper"])
        log.append({"kind": kind, "magic": rng.choice([0, 1]), "n": rng.randint(1, 12 if thorough else 6),
                    "gap": rng.choice([0, 0, 0, 1, 3, 50]), "size": rng.choice([0, 5, 30, 120, 500, 1500 if thorough else 200]),
                    "nullkey": rng.random() < 0.3, "nullval": rng.random() < 0.1, "nested": kind == "wrapper" and rng.random() < 0.15,
                    "holes": kind == "wrapper" and rng.random() < 0.3})
        if log[-1]["magic"] == 1 and not log[-1]["nested"] and random.Random(seed * 31 + len(log)).random() < 0.3:
            log[-1]["attrs"] = 8  # timestamp type = log append time
        if kind == "wrapper" and not log[-1]["nested"] and log[-1]["n"] > 1 and random.Random(seed * 37 + len(log)).random() < 0.3:
            log[-1]["members"] = random.Random(seed * 41 + len(log)).choice([2, 2, 3])  # multi-member gzip stream
    big = rng.random() < (0.1 if thorough else 0.05) and variant in ("faulty", "retry", "clean", "recovery")
    buf = rng.choice([64, 128, 256, 1024, 4096, 65536])
    if big:
        # growth across 2^20: sixteen-fold up to 1 MiB, then doubling
        buf = rng.choice([2 ** 16, 2 ** 19, 2 ** 20, 3 * 2 ** 19, 2 ** 21])  # (the last two start in the doubling regime)
        log.append({"kind": "plain", "magic": rng.choice([0, 1]), "n": 1, "gap": 0, "size": rng.choice([2 ** 20 + 5, 3 * 2 ** 20, 2 ** 22 + 1, 7 * 2 ** 18, 5 * 2 ** 19 - 100]),
                    "nullkey": False, "nullval": False, "nested": False, "holes": False})
        log.append({"kind": "plain", "magic": 0, "n": 2, "gap": 0, "size": 10, "nullkey": False, "nullval": False, "nested": False, "holes": False})
    maxbuf = rng.choice([None, None, buf, buf * 4, buf * 16, 2 ** 21])
    if big:
        maxbuf = rng.choice([None, 2 ** 21, 2 ** 22, 2 ** 23, 2 ** 24, 3 * 2 ** 20, 5 * 2 ** 19, 6 * 2 ** 20])  # also limits the steps do not hit exactly
    if big and random.Random(seed * 53 + 1).random() < 0.4:
        # doubling regime with a limit the doubling would overshoot: the step must be clamped to the limit, not refused
        r5 = random.Random(seed * 53 + 2)
        buf, maxbuf, size = r5.choice([(3 * 2 ** 19, 2 ** 21, 7 * 2 ** 18), (3 * 2 ** 19, 5 * 2 ** 19, 2 ** 21 + 1000), (2 ** 21, 3 * 2 ** 20, 5 * 2 ** 19),
                                       (2 ** 21, 7 * 2 ** 19, 3 * 2 ** 20)])
        log[-2]["size"] = size - 100
    if maxbuf is not None and maxbuf < buf:
        maxbuf = buf
    timeout_ms = rng.choice([400, 1000, 5000])
    cons = {
        "buffer_size": buf, "max_buffer_size": maxbuf,
        "fetch_size_bytes": rng.choice([1, 1, 64, 4096]),
        "fetch_max_wait_time": rng.choice([10, 50, 100, 250]),
        "retry_init": rng.choice([0.01, 0.05, 0.1]), "retry_max": rng.choice([0.1, 0.5, 30.0]),
        "max_attempts": rng.choice([0, 0, 0, 1, 2, 3, 5]),
        "reset": rng.choice([None, None, OFFSET_EARLIEST, OFFSET_LATEST]),
        "group": group,
        "every_n": rng.choice([0, 1, 2, 3, 10]) if group else None,
        "every_ms": rng.choice([0, 20, 100, 1000]) if group else None,
    }
    if cons["fetch_max_wait_time"] / 1000.0 > timeout_ms / 1000.0 - 0.1:
        cons["fetch_max_wait_time"] = 100
    if variant in ("recovery", "clean"):
        cons["max_attempts"] = 0
        cons["reset"] = cons["reset"] or OFFSET_EARLIEST
    start = rng.choice(["num", "num", "earliest", "latest", "committed" if group else "earliest"])
    start_rel = rng.randint(0, 12)
    cfg = {
        "variant": variant, "brokers": nb, "topics": [{"name": TOPIC, "parts": 1}, {"name": "other", "parts": 2}],
        "lat": [0.0, 0.0] if instant else [0.0005, rng.choice([0.002, 0.01])],
        "seg": "mixed" if rng.random() < 0.6 else ["coalesce", "coalesce"],
        "shuffle_ties": rng.random() < 0.5,
        "client": {"timeout_ms": timeout_ms, "discover": discover, "retry": [round(rng.choice([0.01, 0.05, 0.2]), 3) for _ in range(3)]},
        "consumer": cons, "base": base, "start": start, "start_rel": start_rel, "connect_timeout": rng.choice([0.5, 2.0]),
        "late_timers": random.Random(seed * 7919 + 5).choice([0.0, 0.0, 0.0, 0.002, 0.03]),
        "precommit": rng.choice([None, None, rng.randint(0, 10)]) if group else None,
    }
    r3 = random.Random(seed * 613 + 11)
    if discover and r3.random() < 0.4:
        from .cluster import version_table
        tab = version_table(*r3.choice([(3, 3), (5, 6), (8, 11), (2, 11), (9, 2)]))
        cfg["apiversions"] = {str(n): tab for n in range(1, nb + 1)}
    if big:
        cfg["seg"] = ["coalesce", "coalesce"]
        cfg["big"] = True
    if variant in ("recovery", "clean") or (variant == "retry" and rng.random() < 0.5):
        cfg["seg"] = [rng.choice(["coalesce", "writes", "random"]), rng.choice(["coalesce", "writes", "random"])]
        if not instant:
            cfg["lat"] = [0.0005, 0.002]
        cfg["client"]["timeout_ms"] = max(timeout_ms, 1000)
    horizon = rng.choice([0.1, 0.5, 2.0])
    ops = []
    proc = []
    for k in range(1, rng.choice([0, 1, 2, 4, 8]) + 1):
        mode = rng.choice(["async", "async", "slow", "fail", "async_fail", "async_cancelled"])
        if variant in ("recovery", "clean", "retry") and mode in ("fail", "async_fail", "async_cancelled"):
            mode = "async"
        proc.append({"n": rng.randint(1, 12), "mode": mode, "delay": round(rng.choice([0.0, 0.001, 0.02, 0.2]), 6)})
    for _ in range(rng.choice([0, 1, 1, 2, 3])):
        ops.append({"t": round(rng.random() * horizon, 6), "op": "append", "kind": rng.choice(["plain", "wrapper"]),
                    "magic": rng.choice([0, 1]), "n": rng.randint(1, 5), "size": rng.choice([0, 20, 300])})
    if group:
        for _ in range(rng.choice([0, 1, 2, 3])):
            ops.append(_when(rng, horizon, {"op": "commit"}))
    nstop = rng.choice([0, 0, 1]) if variant not in ("stop", "commit") else rng.choice([1, 1, 2])
    if variant in ("recovery", "clean"):
        nstop = 0
    for _ in range(nstop):
        kind = rng.choice(["stop", "stop", "shutdown"])
        ops.append(_when(rng, horizon, {"op": kind}))
        if rng.random() < 0.6:
            st = rng.choice(["num", "earliest", "latest", "committed" if group else "earliest"])
            ops.append({"t": round(horizon * (1 + rng.random()), 6), "op": "start", "start": st, "start_rel": rng.randint(0, 12)})
    if variant == "commit" and rng.random() < 0.7:
        for _ in range(rng.choice([1, 1, 2])):
            ops.append(_when(rng, horizon, {"op": "kill"}))
            ops.append({"t": round(horizon * (1 + rng.random()), 6), "op": "spawn", "start": "committed", "start_rel": 0})
    faults = []
    if variant not in ("clean",):
        nf = rng.choice([0, 1, 2, 3, 5])
        for _ in range(nf):
            kinds = ["error", "error", "error_persist", "silent", "cut_before", "cut_mid", "cut_after", "delay", "move_leader",
                     "retention", "meta_error", "refuse", "commit_error", "oor"]
            if variant == "corrupt":
                kinds += ["corrupt"] * 8
            if variant == "retry":
                kinds = ["error", "error_persist", "error_persist", "cut_before", "oor", "oor", "silent", "refuse"]
            kind = rng.choice(kinds)
            node = rng.choice([None] + list(range(1, nb + 1)))
            api = rng.choice([1, 1, 1, 2, 9 if group else 1, 3])
            if kind in ("error", "error_persist"):
                f = {"api": api, "node": node, "nth": rng.randint(0, 6), "act": "error",
                     "code": rng.choice([3, 6, 5, 7, 13, 2, 999] if api != 9 else [14, 15, 16, 7, 999])}
                if kind == "error_persist":
                    f["count"] = rng.choice([2, 3, 6, 20])
                faults.append(f)
            elif kind == "oor":
                faults.append({"api": 1, "node": node, "nth": rng.randint(0, 6), "act": "error", "code": 1, "count": rng.choice([1, 1, 3])})
            elif kind in ("silent", "cut_before", "cut_mid", "cut_after"):
                f = {"api": rng.choice([1, 1, 2, 3, 8 if group else 1, 9 if group else 1]), "node": node, "nth": rng.randint(0, 6), "act": kind}
                if kind == "cut_mid":
                    f["frac"] = rng.random()
                faults.append(f)
            elif kind == "delay":
                faults.append({"api": rng.choice([1, 8 if group else 1]), "node": node, "nth": rng.randint(0, 5), "act": "delay",
                               "delay": round(rng.choice([0.01, 0.2, timeout_ms / 1000.0 * 1.2]), 6)})
            elif kind == "move_leader":
                faults.append({"t": round(rng.random() * horizon, 6), "act": "move_leader", "topic": TOPIC, "partition": 0,
                               "to": rng.choice(list(range(1, nb + 1)) + ([-1] if variant != "recovery" else []))})
            elif kind == "retention":
                faults.append({"t": round(rng.random() * horizon, 6), "act": "advance_log_start", "topic": TOPIC, "partition": 0,
                               "to": base + rng.randint(1, 20)})
            elif kind == "meta_error":
                faults.append({"api": 3, "node": node, "nth": rng.randint(0, 4), "act": "error", "code": rng.choice([5, 3]), "count": rng.choice([1, 3])})
            elif kind == "refuse":
                faults.append({"kind": "connect", "nth": rng.randint(0, 6), "what": rng.choice(["refused", "blackhole", "dns", "sync_fail"]), "count": rng.choice([1, 2, 4])})
            elif kind == "commit_error" and group:
                faults.append({"api": 8, "node": node, "nth": rng.randint(0, 4), "act": rng.choice(["error", "error", "error_after_apply"]),
                               "code": rng.choice([14, 15, 16, 7, 12, 22, 25, 999]), "count": rng.choice([1, 1, 2, 5])})
            elif kind == "corrupt":
                faults.append({"kind": "corrupt", "entry": rng.randint(0, 30), "pos": rng.random(), "burst": rng.choice([1, 1, 2, 8, 32]),
                               "heal": rng.random() < 0.7 or cons["retry_max"] < 0.5, "inner": rng.random() < 0.4})
    if variant == "commit" and rng.random() < 0.25:
        # the committed position is the very first offset of the log (0 when the log starts there): commit after the
        # first message only, restart from the committed position - it must resume at the second message
        cfg["base"] = rng.choice([0, 0, 0, 7])
        cfg["start"] = "earliest"
        cfg["precommit"] = None
        cons.update(every_n=1, every_ms=0, reset=rng.choice([OFFSET_EARLIEST, OFFSET_LATEST, None]))
        log[:] = [{"kind": "plain", "magic": rng.choice([0, 1]), "n": 1, "gap": 0, "size": 5, "nullkey": False, "nullval": False, "nested": False, "holes": False}]
        t1 = round(0.2 + rng.random() * 0.3, 6)
        ops = [{"t": t1, "op": rng.choice(["kill", "stop", "shutdown"])}]
        ops.append({"t": round(t1 + 0.05, 6), "op": "append", "kind": "plain", "magic": 0, "n": rng.randint(2, 5), "size": 20})
        ops.append({"t": round(t1 + 0.1 + rng.random() * 0.3, 6), "op": "spawn" if ops[0]["op"] == "kill" else "start", "start": "committed", "start_rel": 0})
        proc = []
        faults = [f for f in faults if f.get("api") not in (8, 9) and f.get("act") != "advance_log_start" and f.get("kind") != "corrupt"][:1]
    sub = rng.random()
    if variant == "commit" and 0.25 <= sub < 0.5:
        # shutdown() (and maybe stop() right after it) behind a commit that is in flight and is answered late - with
        # success, with an error that ends the commit for good, or with one that is retried
        cons.update(every_n=rng.choice([1, 2]), every_ms=0, retry_init=0.05, max_attempts=rng.choice([0, 2]))
        cfg["precommit"] = None
        cfg["start"] = "earliest"
        log[:] = [{"kind": "plain", "magic": rng.choice([0, 1]), "n": rng.randint(4, 9), "gap": 0, "size": 5, "nullkey": False, "nullval": False,
                   "nested": False, "holes": False}]
        k = rng.randint(0, 2)
        how = rng.choice(["ok", "fatal", "fatal", "retriable"])
        f = {"api": 8, "node": None, "nth": k, "act": "delay" if how == "ok" else "error", "delay": round(rng.choice([0.1, 0.3]), 6)}
        if how == "fatal":
            f["code"] = rng.choice([22, 25])
        elif how == "retriable":
            f.update(code=rng.choice([14, 15, 16]), count=rng.choice([1, 3]))
        faults = [f]
        ops = [o for o in ops if o["op"] == "append"][:1]
        ops.append({"op": "shutdown", "on": ["commit", k], "delay": rng.choice([0.001, 0.02])})
        if rng.random() < 0.5:
            ops.append({"op": "stop", "on": ["commit", k], "delay": rng.choice([0.03, 0.06])})
        if rng.random() < 0.5:
            ops.append({"t": round(1.5 + rng.random(), 6), "op": "start", "start": rng.choice(["committed", "earliest"]), "start_rel": 0})
        proc = []
    if variant == "stop" and 0.3 <= sub < 0.5:
        # stop() while the very first request is still bootstrapping / discovering versions / loading metadata
        cfg["lat"] = [0.0005, rng.choice([0.002, 0.01])]
        ops = [o for o in ops if o["op"] == "append"][:1]
        ops.append({"t": rng.choice([0.0002, 0.0008, 0.002, 0.005, 0.012, 0.03]), "op": "stop"})
        if rng.random() < 0.6:
            ops.append({"t": round(0.5 + rng.random(), 6), "op": "start", "start": rng.choice(["earliest", "num", "committed" if group else "earliest"]), "start_rel": 0})
        faults = faults[:1]
    if variant == "stop" and sub < 0.3:
        # stop() while an asynchronous processor call is pending and later blocks of the same fetch are queued behind it
        cons.update(group=True, every_n=rng.choice([1, 1, 2, 3]), every_ms=rng.choice([0, 0, 1000]), buffer_size=65536, max_buffer_size=None, fetch_size_bytes=1)
        cfg["precommit"] = None
        cfg["start"] = "earliest"
        log[:] = [{"kind": rng.choice(["plain", "wrapper"]), "magic": rng.choice([0, 1]), "n": rng.randint(6, 12), "gap": 0, "size": 5, "nullkey": False, "nullval": False,
                   "nested": False, "holes": False}]
        k = rng.randint(1, 3)
        proc = [{"n": k, "mode": rng.choice(["async", "slow"]), "delay": 0.2}]
        cons["fetch_max_wait_time"] = rng.choice([10, 50])  # so that the next reply arrives (and is parked) while the call is pending
        ops = [{"op": rng.choice(["stop", "stop", "stop", "shutdown"]), "on": ["proc", k, "pending"], "delay": rng.choice([0.001, 0.05, 0.12, 0.18])}]
        if rng.random() < 0.7:
            ops.append({"t": round(1.0 + rng.random(), 6), "op": "start", "start": rng.choice(["committed", "committed", "num"]), "start_rel": 0})
            if rng.random() < 0.5:
                ops.append({"op": "commit", "on": ["proc", k + 2, "during"]})
        faults = faults[:1]
    if variant == "restop":
        # stop() while a retry timer (of a failed commit or fetch) is pending, start() again so that nothing touches
        # that timer's slot, then the final stop(): a stopped consumer can be started - and stopped - again
        cons.update(every_n=rng.choice([1, 2]), every_ms=0, retry_init=0.1, retry_max=rng.choice([0.5, 30.0]), max_attempts=0, reset=OFFSET_EARLIEST)
        cfg["lat"] = [0.0005, 0.002]
        cfg["precommit"] = None
        cfg["start"] = "earliest"
        log.append({"kind": "plain", "magic": 0, "n": 6, "gap": 0, "size": 5, "nullkey": False, "nullval": False, "nested": False, "holes": False})
        k = rng.randint(0, 2)
        what = rng.choice(["commit", "commit", "fetch"])
        api, codes = (8, [14, 15, 16, 7]) if what == "commit" else (1, [3, 5, 6, 7])
        faults = [{"api": api, "node": None, "nth": k, "act": "error", "code": rng.choice(codes), "count": 50}]
        ops = [o for o in ops if o["op"] == "append"]
        ops.append({"op": "stop", "on": [what, k], "delay": rng.choice([0.01, 0.03])})
        ops.append({"t": round(1.0 + rng.random(), 6), "op": "start", "start": rng.choice(["latest", "latest", "num"]), "start_rel": 0})
        proc = []
    if cons["group"] and rng.random() < 0.04:
        # directed shape: stop() while a manual commit is in flight; the cancelled waiter's callback commits again or shuts
        # down (inside stop(), while the cancelled request is still registered), and the application restarts the
        # consumer from the start Deferred's callback
        cons.update(every_n=0, every_ms=0)
        cfg["precommit"] = None
        cfg["start"] = "earliest"
        ops = [o for o in ops if o["op"] == "append"][:1]
        ops += [{"t": 0.05, "op": "commit"}, {"op": "stop", "on": ["commit", 0], "delay": 0.0005},
                {"op": rng.choice(["shutdown", "commit", "stop", "stop"]), "on": ["commit_result", 0]},
                {"op": "start", "on": ["start_result", 0], "start": "earliest", "start_rel": 0}]
        if rng.random() < 0.5:
            # (and once more, at a position, should that run be ended at once as well)
            ops.append({"op": "start", "on": ["start_result", 1], "start": "num", "start_rel": 1})
        faults = [{"api": 8, "node": None, "nth": 0, "act": "delay", "delay": 0.2}]
        proc = []
    if rng.random() < 0.05:
        # directed shape: stop() (or shutdown()) from inside the processor while later blocks of the same fetch are queued,
        # and a restart from inside the start Deferred's callback - i.e. inside that stop(), inside that processor call
        cons.update(group=True, every_n=1, every_ms=0, buffer_size=65536, max_buffer_size=None)
        cfg["precommit"] = None
        cfg["start"] = "earliest"
        log[:] = [{"kind": rng.choice(["plain", "wrapper"]), "magic": rng.choice([0, 1]), "n": rng.randint(6, 12), "gap": 0, "size": 5, "nullkey": False,
                   "nullval": False, "nested": False, "holes": False}]
        k = rng.randint(1, 3)
        proc = [{"n": k, "mode": rng.choice(["sync", "async", "async"]), "delay": rng.choice([0.0, 0.05])}]
        ops = [o for o in ops if o["op"] == "append"][:1]
        ops += [{"op": rng.choice(["stop", "stop", "shutdown"]), "on": ["proc", k, "during"]},
                {"op": "start", "on": ["start_result", 0], "start": rng.choice(["num", "earliest"]), "start_rel": rng.randint(0, 3)}]
        faults = []
    if rng.random() < 0.15:
        # ... and restarting the consumer from inside the start Deferred's callback (fired by stop(), or by a failure)
        ops.append({"op": "start", "on": ["start_result", rng.choice([0, 0, 1])], "start": rng.choice(["num", "earliest", "committed" if cons["group"] else "latest"]),
                    "start_rel": rng.randint(0, 6)})
    if cons["group"] and any(o["op"] == "commit" for o in ops) and rng.random() < 0.5:
        # the application reacting to the result of a commit() from inside that Deferred's callback
        for _ in range(rng.choice([1, 1, 2])):
            ops.append({"op": rng.choice(["stop", "stop", "commit", "commit", "shutdown"]), "on": ["commit_result", rng.randint(0, 2)]})
    t_faults_end = round(max([horizon * 2.2] + [f["t"] for f in faults if "t" in f] + [o["t"] for o in ops if "t" in o]) + 0.01, 6)
    plan = {"family": FAMILY, "seed": seed, "tier": tier, "cfg": cfg, "log": log, "ops": ops, "proc": proc, "faults": faults,
            "t_faults_end": t_faults_end}
    return plan


def _when(rng, horizon, op):
    r = rng.random()
    if r < 0.35:
        op["t"] = round(rng.random() * horizon, 6)
    elif r < 0.6:
        op["on"] = ["proc", rng.randint(1, 8), rng.choice(["during", "during", "after"])]
    elif r < 0.8:
        op["on"] = ["fetch", rng.randint(0, 8)]
        op["delay"] = round(rng.choice([0.0, 0.0005, 0.005]), 6)
    else:
        op["on"] = ["commit", rng.randint(0, 4)]
        op["delay"] = round(rng.choice([0.0, 0.0005, 0.005]), 6)
    return op


def plans_for(seed, tier):
    return [gen_plan(seed, tier)]


# ---------------------------------------------------------------------------------------------
# run
# ---------------------------------------------------------------------------------------------

def _value(off, size):
    return b"L%d:" % off + b"." * size


def build_log(part, plan, rng):
    """Populate the partition from plan['log']; returns list of LogEntry for corruption targeting."""
    off = plan["cfg"]["base"]
    part.log_start = off
    part.leo = off
    for seg in plan["log"]:
        off = max(off, part.leo) + seg["gap"]
        msgs = []
        step = 0
        for i in range(seg["n"]):
            if seg.get("holes") and i:
                step += rng.choice([0, 1, 2])  # the log cleaner removed messages inside the wrapper: relative offsets have gaps
            o = off + i + step
            key = None if seg["nullkey"] else b"k%d" % o
            val = None if (seg["nullval"] and key is not None) else _value(o, seg["size"])
            msgs.append(Msg(o, key, val, seg["magic"], 1600000000000 + i if seg["magic"] == 1 else None))
        if seg["kind"] == "wrapper":
            raw = None
            if seg.get("nested") and len(msgs) >= 2:
                # a wrapper holding a wrapper holding the messages (depth 2)
                mg = seg["magic"]
                inner = kwire.encode_wrapper([Msg(m.offset if mg == 0 else m.offset - msgs[0].offset, m.key, m.value, mg, m.timestamp) for m in msgs], mg) \
                    if mg == 0 else None
                if inner is not None:
                    raw = kwire.encode_wrapper(msgs, mg, inner=inner)
            part.append_prebuilt(msgs, seg["magic"], True, raw)
            if seg.get("holes") and seg["magic"] == 1 and raw is None:
                part.entries[-1].rel0 = rng.choice([0, 1, 4])
            if raw is None:
                part.entries[-1].attrs = seg.get("attrs", 0)
                part.entries[-1].members = seg.get("members", 1)
        else:
            n0 = len(part.entries)
            part.append_prebuilt(msgs, seg["magic"], False)
            for e_ in part.entries[n0:]:
                e_.attrs = seg.get("attrs", 0)
        off = part.leo


def run_plan(plan):
    w = World(plan)
    try:
        return _run(w, plan)
    finally:
        w.restore_modules()


def _run(w, plan):
    from afkak.common import (ChecksumError, ConsumerFetchSizeTooSmall, FailedPayloadsError, KafkaError, OffsetOutOfRangeError,
                              OperationInProgress, RestartError, RestopError)
    from afkak.consumer import Consumer
    from twisted.internet.defer import CancelledError, Deferred

    cfg = plan["cfg"]
    cc = cfg["consumer"]
    sim, res, net, cl = w.sim, w.res, w.net, w.cluster
    part = cl.part(TOPIC, 0)
    build_log(part, plan, sim.rng("log"))
    base = cfg["base"]
    if cfg.get("precommit") is not None:
        cl.offsets[(GROUP, TOPIC, 0)] = (base + cfg["precommit"], "")
    corrupt_specs = [f for f in plan["faults"] if f.get("kind") == "corrupt"]
    corrupted = []
    inner_from = {}  # id(entry) -> first offset affected when the damage is inside the wrapper
    for f in corrupt_specs:
        if not part.entries:
            break
        e = part.entries[f["entry"] % len(part.entries)]
        if f.get("inner"):
            ws = [x for x in part.entries if x.wrapper and x.raw is None and not x.corrupt]
            if ws:
                e = ws[f["entry"] % len(ws)]
        if e.corrupt:
            continue
        inner_j = None
        if f.get("inner") and e.wrapper and e.raw is None and len(e.msgs) >= 1:
            # the damage happened before the batch was compressed (a faulty producer, a bad disk under the log cleaner):
            # the wrapper's own checksum and the compressed stream are valid, one *inner* message's checksummed bytes are not
            mg = e.magic
            chunks = [kwire.encode_entry(m.offset if mg == 0 else m.offset - e.msgs[0].offset + e.rel0,
                                         kwire.encode_message(mg, 0, m.key, m.value, m.timestamp if mg == 1 else None)) for m in e.msgs]
            inner_j = int(f["pos"] * len(chunks)) % len(chunks)
            raw = bytearray(chunks[inner_j])
        else:
            raw = bytearray(e.encode())
        lo = 12
        frac = (f["pos"] * 7919) % 1.0 if inner_j is not None else f["pos"]
        pos = lo * 8 + int(frac * ((len(raw) - lo) * 8 - f["burst"]))
        pos = max(lo * 8, min(pos, len(raw) * 8 - f["burst"]))
        for b in range(f["burst"]):
            bit = pos + b
            if b == 0 or b == f["burst"] - 1 or sim.rng("corrupt").random() < 0.5:
                raw[bit // 8] ^= 1 << (7 - bit % 8)
        if inner_j is not None:
            if bytes(raw) == chunks[inner_j]:
                continue
            chunks[inner_j] = bytes(raw)
            ms = [Msg(m.offset, m.key, m.value, mg, m.timestamp if mg == 1 else None) for m in e.msgs]
            raw = bytearray(kwire.encode_wrapper(ms, mg, inner=b"".join(chunks)))
            inner_from[id(e)] = e.msgs[inner_j].offset
            net.fault("corrupt_inner_message")
        if bytes(raw) == e.encode():
            continue
        e.raw_clean = e.raw
        e.raw = bytes(raw)
        e.corrupt = True
        e.heal = f["heal"]
        corrupted.append(e)
        net.fault("corrupt_stored_message")
    connect_rules = [f for f in plan["faults"] if f.get("kind") == "connect"]

    def connect_rule(att):
        for f in connect_rules:
            if f["nth"] <= att["n"] < f["nth"] + f.get("count", 1):
                return {"kind": f["what"]}
        return None

    if connect_rules:
        net.connect_rules.append(connect_rule)

    incs = []  # incarnations
    state = {"inc": None, "healed": False, "t_heal": None, "inner_from": inner_from}
    proc_spec = {}
    for p in plan["proc"]:
        proc_spec.setdefault(p["n"], p)
    triggers = {"proc": {}, "fetch": {}, "commit": {}, "commit_result": {}, "start_result": {}}
    for o in plan["ops"]:
        if "on" in o:
            triggers[o["on"][0]].setdefault((o["on"][1],) + tuple(o["on"][2:]), []).append(o)
    counters = {"fetch": 0, "commit": 0, "commit_result": 0, "start_result": 0}

    def on_request(entry):
        if entry["key"] == kwire.FETCH:
            k = counters["fetch"]
            counters["fetch"] += 1
            for o in triggers["fetch"].pop((k,), ()):
                sim.after(o.get("delay", 0.0), do_op, o)
        elif entry["key"] == kwire.OFFSET_COMMIT:
            k = counters["commit"]
            counters["commit"] += 1
            for o in triggers["commit"].pop((k,), ()):
                sim.after(o.get("delay", 0.0), do_op, o)

    cl.on_request = on_request

    class Inc(object):
        pass

    def resolve_start(kind, rel):
        if kind == "num":
            return base + rel
        return {"earliest": OFFSET_EARLIEST, "latest": OFFSET_LATEST, "committed": OFFSET_COMMITTED}[kind]

    def spawn(start_kind, start_rel):
        inc = Inc()
        inc.n = len(incs)
        inc.pid = "p%d" % inc.n
        inc.client = w.make_client(inc.pid)
        inc.obs = Observed(inc.client, sim, inc.pid)
        inc.sessions = []
        inc.proc_n = 0
        inc.pending = None
        inc.in_proc = None
        inc.alive = True
        inc.commit_ws = []
        inc.shutdown_ws = []
        inc.obs.hooks.append(lambda kind, rec, inc=inc: api_hook(inc, kind, rec))
        kw = dict(buffer_size=cc["buffer_size"], max_buffer_size=cc["max_buffer_size"], fetch_size_bytes=cc["fetch_size_bytes"],
                  fetch_max_wait_time=cc["fetch_max_wait_time"], request_retry_init_delay=cc["retry_init"],
                  request_retry_max_delay=cc["retry_max"], request_retry_max_attempts=cc["max_attempts"],
                  auto_offset_reset=cc["reset"])
        if cc["group"]:
            kw.update(consumer_group=GROUP, auto_commit_every_n=cc["every_n"], auto_commit_every_ms=cc["every_ms"])
        inc.consumer = Consumer(inc.obs, TOPIC, 0, lambda c, msgs, inc=inc: processor(inc, msgs), **kw)
        inc.model_delay = cc["retry_init"]
        inc.model_maxattempts = cc["max_attempts"]
        incs.append(inc)
        state["inc"] = inc
        start_session(inc, start_kind, start_rel)
        return inc

    def start_session(inc, start_kind, start_rel):
        off = resolve_start(start_kind, start_rel)
        s = {"inc": inc.n, "start_kind": start_kind, "start_offset": off, "t": sim.now, "seq": len(sim.log), "delivered": [],
             "procs": [], "stopped": False, "stop_seq": None, "stop_kind": None, "shutdown_called": False, "calls": [],
             "ended_by_kill": False, "stop_t": None}
        sim.record("op", "start", inc.n, start_kind, off)
        sim.mark("op", "start")
        inc.sessions.append(s)
        try:
            d = inc.consumer.start(off)
        except RestartError:
            inc.sessions.pop()
            sim.record("start_refused")
            return
        s["start_w"] = watch(d, "start#%d.%d" % (inc.n, len(inc.sessions)), sim, lambda wd, s=s: on_start_fire(s, wd), keep_failure=True)

    def on_start_fire(s, wd):
        s["start_fire_seq"] = wd.seq
        s["start_fire_in_stop"] = bool(state.get("in_stop"))
        # the application restarting the consumer from inside the callback that told it the consumer had ended
        k_ = counters["start_result"]
        counters["start_result"] += 1
        for o2 in triggers["start_result"].pop((k_,), ()):
            res.probe("start_from_inside_the_start_callback" + ("_in_stop" if state.get("in_stop") else ""))
            s["restarted_from_callback"] = True
            do_op(o2)
        s["lpo_at_fire"] = incs[s["inc"]].consumer.last_processed_offset

    def cur_session(inc):
        return inc.sessions[-1] if inc.sessions else None

    def api_hook(inc, kind, rec):
        s = cur_session(inc)
        if s is None or not inc.alive:
            return
        if kind == "call":
            rec["session"] = s
            s["calls"].append(rec)
            if rec["name"] == "send_offset_commit_request":
                pl = rec["args"][1] if len(rec["args"]) > 1 else rec["kw"].get("payloads")
                rec["commit_offset"] = pl[0].offset
                rec["lpo"] = inc.consumer.last_processed_offset
                # ground truth at issue time: last message of the most recent successful invocation
                good = [p for ss in inc.sessions for p in ss["procs"] if p["done"] and p["ok"]]
                rec["last_ok"] = good[-1]["offsets"][-1] if good else None
                okset = set()
                for p in good:
                    okset.update(p["offsets"])
                # every message delivered to this incarnation at or below the committed value must have been
                # part of some invocation that completed successfully before the commit was issued
                # (only invocations begun before the last successful one completed count: an application that
                # rewinds and re-delivers old offsets afterwards has not made the earlier progress untrue)
                horizon = good[-1]["seq_done"] if good else -1
                # ... and a restart the application requested at an explicit position (number, earliest, latest) is a
                # permitted discontinuity: what was delivered before it is no longer owed
                first = 0
                for i_, ss in enumerate(inc.sessions):
                    if ss["start_kind"] != "committed":
                        first = i_
                    else:
                        # ... and so is a start from the committed position that found nothing committed: the reset
                        # policy chose the position
                        nxt = inc.sessions[i_ + 1]["seq"] if i_ + 1 < len(inc.sessions) else float("inf")
                        for e in cl.reqlog:
                            if e["key"] == kwire.OFFSET_FETCH and e["pid"] == inc.pid and ss["seq"] <= e["logseq"] < nxt and e.get("resp_body") \
                                    and e.get("delivered_seq") is not None:
                                try:
                                    p_ = e["resp_body"]["topics"][0]["partitions"][0]
                                    if p_["error"] == 0 and p_["offset"] < 0:
                                        first = i_
                                except (KeyError, IndexError, TypeError):
                                    pass
                # ... and so is the reset policy firing (the broker answered out-of-range: what lay before is gone)
                oor_seq = -1
                for e in reversed(cl.served_fetches):
                    if e["pid"] == inc.pid and e["served"][0]["error"] == E_OFFSET_OUT_OF_RANGE:
                        oor_seq = e["logseq"]
                        break
                floor = base + cfg["precommit"] if cfg.get("precommit") is not None else -1  # an earlier owner's progress
                floor = max(floor, part.log_start - 1)  # (and what retention has removed from the log is owed to nobody)
                rec["bad_below"] = sorted(set(o for ss in inc.sessions[first:] for p in ss["procs"] if oor_seq < p["seq"] < horizon
                                              for o in p["offsets"] if floor < o <= pl[0].offset and o not in okset))
            if s["stopped"]:
                res.violate("C13", "C13:client-request-after-stop:%s" % rec["name"], "consumer issued %s after stop() returned" % rec["name"], sim)

    def _resume_seq(inc):
        return 0

    def processor(inc, msgs):
        if not inc.alive:
            # the process is dead; Python cannot abort the call stack it died in, whatever still runs there is an
            # artefact that cannot touch the world (its transports and timers are gone)
            return None
        s = cur_session(inc)
        inc.proc_n += 1
        k = inc.proc_n
        rec = {"k": k, "offsets": [m.offset for m in msgs], "seq": len(sim.log), "t": sim.now, "done": False, "ok": None, "inc": inc.n}
        sim.record("proc", inc.n, k, msgs[0].offset, msgs[-1].offset)
        sim.mark("proc", "p")
        if s is None:
            raise HarnessError("processor call without a session")
        if inc.pending is not None:
            res.violate("C02", "C02:processor-invoked-while-previous-result-pending", "invocation %d began while %d was pending" % (k, inc.pending["k"]), sim)
        if s["stopped"]:
            res.violate("C13", "C13:processor-invoked-after-stop", "invocation %d (offsets %d..%d) after stop() returned" % (k, msgs[0].offset, msgs[-1].offset), sim)
        s["procs"].append(rec)
        inc.in_proc = rec
        try:
            return _processor_body(inc, s, rec, k, msgs)
        finally:
            inc.in_proc = None

    def _processor_body(inc, s, rec, k, msgs):
        for m in msgs:
            s["delivered"].append((m.offset, m.message.key, m.message.value, rec))
            rec.setdefault("meta", {})[m.offset] = (m.message.magic, m.message.attributes, getattr(m.message, "timestamp", None))
        spec = proc_spec.get(k, {"mode": "sync"})
        for o in triggers["proc"].pop((k, "during"), ()):
            res.probe("op_from_inside_processor_" + o["op"])
            do_op(o)
        after_ops = triggers["proc"].pop((k, "after"), ())
        if not inc.alive:
            rec["done"] = True
            rec["ok"] = False
            rec["seq_done"] = len(sim.log)
            raise RuntimeError("process killed inside the processor")

        def finish(ok):
            rec["done"] = True
            rec["ok"] = ok
            rec["seq_done"] = len(sim.log)
            sim.record("proc_done", inc.n, k, ok)

        mode = spec["mode"]
        if mode == "sync":
            finish(True)
            for o in after_ops:
                sim.after(0.0, do_op, o)
            return None
        if mode == "fail":
            finish(False)
            res.probe("processor_failed_sync")
            for o in after_ops:
                sim.after(0.0, do_op, o)
            raise RuntimeError("processor failure injected at invocation %d" % k)
        d = Deferred()
        inc.pending = rec

        def cleared(result):
            inc.pending = None
            if not rec["done"]:
                finish(False)  # cancelled by the consumer
                rec["cancelled"] = True
            return result

        d.addBoth(cleared)

        def fire():
            if d.called or not inc.alive:
                return
            if mode == "async_fail":
                finish(False)
                res.probe("processor_failed_async")
                d.errback(RuntimeError("async processor failure injected at invocation %d" % k))
            elif mode == "async_cancelled":
                # the application's own work was cancelled (a watchdog, an inner operation): a failure like any other
                finish(False)
                res.probe("processor_failed_with_cancelled_error")
                exc = CancelledError()
                exc.injected_by_harness = True
                d.errback(exc)
            else:
                finish(True)
                d.callback(None)
            for o in after_ops:
                sim.after(0.0, do_op, o)

        sim.after(spec["delay"] if mode != "slow" else max(spec["delay"], 0.3), fire)
        for o in triggers["proc"].pop((k, "pending"), ()):
            sim.after(o.get("delay", 0.001), do_op, o)  # while the result of this invocation is pending
        res.probe("processor_async")
        return d

    def snapshot_activity(c):
        """Probe only (private attributes): which activities exist when stop/shutdown is called."""
        out = []
        try:
            if c._request_d is not None:
                out.append("request")
            if c._msg_block_d is not None:
                out.append("block")
            if c._processor_d is not None:
                out.append("processing")
            if c._retry_call is not None and c._retry_call.active():
                out.append("retry_wait")
            if c._commit_req is not None:
                out.append("commit_inflight")
            if c._commit_call is not None and c._commit_call.active():
                out.append("commit_backoff")
            if c._fetch_offset in (OFFSET_EARLIEST, OFFSET_LATEST, OFFSET_COMMITTED):
                out.append("resolving")
        except AttributeError:
            return ["?"]
        return out

    def do_op(o):
        inc = state["inc"]
        kind = o["op"]
        if kind == "append":
            kvs = []
            for i in range(o["n"]):
                off = part.leo + i
                kvs.append((b"k%d" % off, _value(off, o["size"]), 1600000001000 + i))
            part.append(kvs, o["magic"], o["kind"] == "wrapper", 0)
            sim.record("op", "append", o["n"])
            cl._wake(part)
            return
        if kind == "spawn":
            if inc is not None and inc.alive:
                return
            spawn(o["start"], o["start_rel"])
            return
        if inc is None or not inc.alive:
            return
        s = cur_session(inc)
        c = inc.consumer
        if kind == "start":
            if s is not None and not s["stopped"] and not s.get("start_w_fired_unstopped"):
                # still running (or failed but not stopped): stop is the application's job; try start anyway
                pass
            try:
                start_session(inc, o["start"], o["start_rel"])
            except Exception as e:
                sim.record("start_error", type(e).__name__)
        elif kind in ("stop", "shutdown"):
            if s is None or s["stopped"]:
                return
            act = snapshot_activity(c)
            for a in act:
                res.probe("%s_while_%s" % (kind, a))
                res.states.add("%s@%s" % (kind, "+".join(sorted(act))))
            sim.record("op", kind, inc.n)
            sim.mark("op", kind)
            if kind == "stop":
                state["in_stop"] = True
                try:
                    val = c.stop()
                except RestopError:
                    state["in_stop"] = False
                    sim.record("restop")
                    return
                except Exception as e:
                    state["in_stop"] = False
                    res.violate("C13", "C13:stop-raised:%s:%s" % (type(e).__name__, "+".join(sorted(act))),
                                "stop() raised %r (activities at the call: %r, shutdown pending: %r)" % (e, act, s["shutdown_called"]), sim)
                    sim.record("stop_raised", type(e).__name__)
                    mark_stopped(inc, s, "stop")
                    return
                state["in_stop"] = False
                mark_stopped(inc, s, "stop")
                s["stop_return"] = val
                s["lpo_at_stop"] = c.last_processed_offset
            else:
                if s["shutdown_called"]:
                    return
                s["shutdown_called"] = True
                s["shutdown_from_processor"] = inc.in_proc is not None
                s["shutdown_seq"] = len(sim.log)
                s["pending_at_shutdown"] = inc.pending
                try:
                    d = c.shutdown()
                except OperationInProgress:
                    # shutdown() from a commit waiter's cancellation callback inside stop(): refused by raising, like commit()
                    res.probe("shutdown_refused_by_raising")
                    sim.record("shutdown_refused")
                    s["shutdown_called"] = False
                    return
                sw = watch(d, "shutdown#%d" % inc.n, sim, lambda wd, s=s, inc=inc: on_shutdown_fire(inc, s, wd), keep_failure=True)
                s["shutdown_w"] = sw
        elif kind == "commit":
            if not cc["group"] or s is None or s["stopped"]:
                return
            sim.record("op", "commit", inc.n)
            sim.mark("op", "commit")
            try:
                d = c.commit()
            except OperationInProgress:
                # commit() from a waiter's cancellation callback inside stop(): the consumer refuses synchronously while
                # its cancelled request is still registered - a refusal all the same, nothing is sent
                res.probe("commit_refused_by_raising")
                sim.record("commit_refused")
                return
            j = counters["commit_result"]
            counters["commit_result"] += 1

            def on_commit_result(_w, j=j):
                for o2 in triggers["commit_result"].pop((j,), ()):
                    res.probe("op_from_inside_a_commit_callback_" + o2["op"])
                    do_op(o2)

            cw = watch(d, "commit#%d.%d" % (inc.n, len(inc.commit_ws)), sim, on_fire=on_commit_result, keep_failure=True)
            cw.lpo = c.last_processed_offset
            inc.commit_ws.append(cw)
        elif kind == "kill":
            sim.record("op", "kill", inc.n)
            sim.mark("op", "kill")
            inc.alive = False
            if s is not None and not s["stopped"]:
                s["ended_by_kill"] = True
                s["stopped"] = True
                s["stop_seq"] = len(sim.log)
                s["stop_t"] = sim.now
            net.fault("process_kill")
            w.reactors[inc.pid].kill()
            net.kill_pid(inc.pid)
        else:
            raise HarnessError("unknown op %r" % (kind,))

    def mark_stopped(inc, s, how):
        s["stopped"] = True
        s["stop_kind"] = how
        s["stop_seq"] = len(sim.log)
        s["stop_t"] = sim.now
        left = [dc for dc in w.reactors[inc.pid].pending() if dc.sim_creator.startswith("consumer.py")]
        if cur_session(inc) is not s:
            left = []  # restarted from inside the start Deferred's callback, i.e. inside this stop(): the new run's timers
        if left:
            res.violate("C13", "C13:timer-left-after-stop:%s" % left[0].sim_fname,
                        "after %s returned the consumer still holds timers %r" % (how, [(dc.sim_creator, dc.sim_fname) for dc in left]), sim)

    def on_shutdown_fire(inc, s, wd):
        c = inc.consumer
        # shutdown() stops the consumer itself
        if not s["stopped"]:
            mark_stopped(inc, s, "shutdown")
            s["lpo_at_stop"] = c.last_processed_offset
        if inc.pending is not None and inc.pending.get("seq", 0) < wd.seq and not inc.pending.get("done"):
            res.violate("C13", "C13:shutdown-fired-while-processing", "shutdown Deferred fired while invocation %d was pending" % inc.pending["k"], sim)
        if wd.ok and cc["group"]:
            if c.last_committed_offset != c.last_processed_offset and c.last_processed_offset is not None:
                res.violate("C13", "C13:shutdown-success-without-commit:%s" % ("called-from-inside-processor" if s.get("shutdown_from_processor") else "called-from-outside"),
                            "shutdown succeeded with last_committed=%r last_processed=%r" % (c.last_committed_offset, c.last_processed_offset), sim)
            else:
                res.probe("shutdown_committed_everything")

    # ---- online invariant: last_committed_offset only holds broker-acknowledged or broker-reported values ----
    allowed = {}

    def invariant():
        inc = state["inc"]
        if inc is None or not inc.alive or not cc["group"]:
            return
        v = inc.consumer.last_committed_offset
        if v is None or v == allowed.get(inc.n, {}).get("last_checked"):
            return
        ok = set()
        for e in cl.reqlog:
            if e["pid"] != inc.pid or e.get("delivered_seq") is None or e.get("act") == "garbage":
                continue
            if e["key"] == kwire.OFFSET_COMMIT and e.get("resp_body"):
                for t in e["resp_body"]["topics"]:
                    for p in t["partitions"]:
                        if p["error"] == 0:
                            for tt in e["body"]["topics"]:
                                for pp in tt["partitions"]:
                                    if tt["name"] == t["name"] and pp["partition"] == p["partition"]:
                                        ok.add(pp["offset"])
            elif e["key"] == kwire.OFFSET_FETCH and e.get("resp_body"):
                for t in e["resp_body"]["topics"]:
                    for p in t["partitions"]:
                        if p["error"] == 0 and p["offset"] >= 0:
                            ok.add(p["offset"])
        res.oblige("C03")
        if v not in ok:
            res.violate("C03", "C03:last-committed-offset-not-acknowledged-by-broker", "last_committed_offset=%r, broker acknowledged/reported %r" % (
                v, sorted(ok)[-5:]), sim)
        allowed.setdefault(inc.n, {})["last_checked"] = v

    sim.after_event.append(invariant)

    # ---- go ----
    sim.at(0.0, spawn, cfg["start"], cfg["start_rel"])
    for o in plan["ops"]:
        if "t" in o:
            sim.at(o["t"], do_op, o)

    def heal():
        w.heal()
        for e in corrupted:
            if e.heal:
                e.raw = e.raw_clean
                e.corrupt = False
        state["healed"] = True
        state["t_heal"] = sim.now
        state["leo_at_heal"] = part.leo
        cl._wake(part)

    sim.at(plan["t_faults_end"], heal)

    def run_until(t):
        try:
            sim.run(until=t)
        except HarnessError as e:
            res.harness_error = repr(e)

    run_until(plan["t_faults_end"] + 0.001)
    # fault-free tail: long enough for the configured maxima (unbounded retries are bounded by retry_max)
    tail = plan["t_faults_end"] + 3 * max(cc["retry_max"], 1.0) + 4 * cfg["client"]["timeout_ms"] / 1000.0 + 10.0

    def caught_up():
        inc = state["inc"]
        if inc is None or not inc.alive:
            return True
        s = cur_session(inc)
        if s is None or s["stopped"] or s["start_w"].fires:
            return not any(not c_["done"] for c_ in inc.obs.calls) or True
        if inc.pending is not None:
            return False
        # the consumer's most recent fetch asks for the log end and was served without error
        for e in reversed(cl.served_fetches[-6:]):
            if e["pid"] == inc.pid and e["logseq"] > s["seq"]:
                sv = e["served"][0]
                return sv["error"] == 0 and sv["offset"] >= part.leo and e["t"] > plan["t_faults_end"]
        return False

    # (a consumer polling at a short fixed interval - behind a permanently damaged message, say - would use up the event
    # budget before the tail ends: the tail then ends early, leaving enough events for the final stop and close)
    tail_budget = int(sim.max_events * 0.7)
    while sim.now < tail and not sim.overrun and not sim.livelock and res.harness_error is None and sim.events_run < tail_budget:
        run_until(sim.now + 2.0)
        if caught_up() and sim.now > plan["t_faults_end"] + 3.0:
            break
    state["t_tail_end"] = sim.now
    state["tail_cut"] = sim.now < tail and sim.events_run >= tail_budget
    if state["tail_cut"]:
        res.probe("tail_ended_early_on_event_budget")
    final_inc = state["inc"]
    live_tail = None
    if final_inc is not None and final_inc.alive:
        s = cur_session(final_inc)
        if s is not None and not s["stopped"] and not s["start_w"].fires:
            live_tail = s
            s["delivered_at_tail"] = len(s["delivered"])
            s["pending_at_tail"] = final_inc.pending is not None
    # final stop + close
    def final_stop():
        inc = state["inc"]
        if inc is None or not inc.alive:
            return
        s = cur_session(inc)
        for tr in triggers.values():
            tr.clear()  # the workload is over: the final stop must not set off a planned reaction (a restart, say)
        if s is not None and not s["stopped"]:
            do_op({"op": "stop"})

    if sim.livelock:
        # the consumer spins inside one virtual instant (requests and replies without progress)
        kinds = {}
        for e in sim.log[-400:]:
            kinds[e[2]] = kinds.get(e[2], 0) + 1
        inc = state["inc"]
        s_ = cur_session(inc) if inc is not None else None
        last = s_["delivered"][-1][0] if s_ and s_["delivered"] else None
        res.violate("C02", "C02:consumer-spins-without-progress", "more than %d events inside one virtual instant at t=%.6f; last delivered %r, log end %d; recent events %r" % (
            sim.max_same_instant, sim.now, last, part.leo, sorted(kinds.items(), key=lambda kv: -kv[1])[:4]))
        _oracles(w, plan, res, incs, part, state, corrupted, None)
        return w.finish()
    sim.at(sim.now + 0.001, final_stop)
    run_until(sim.now + 50.0)

    def final_close():
        for inc in incs:
            if inc.alive:
                watch(inc.client.close(), "close#%d" % inc.n, sim)

    sim.at(sim.now + 0.001, final_close)
    run_until(sim.now + 50.0)
    if res.harness_error is None and sim.harness_errors:
        res.harness_error = sim.harness_errors[0]

    _oracles(w, plan, res, incs, part, state, corrupted, live_tail)
    return w.finish()


# ---------------------------------------------------------------------------------------------
# oracles over the recorded history
# ---------------------------------------------------------------------------------------------

def _oracles(w, plan, res, incs, part, state, corrupted, live_tail):
    from afkak.common import (ChecksumError, ConsumerFetchSizeTooSmall, FailedPayloadsError, KafkaError, OffsetOutOfRangeError)
    from twisted.internet.defer import CancelledError

    sim, cl, net = w.sim, w.cluster, w.net
    cfg = plan["cfg"]
    cc = cfg["consumer"]
    logmsgs = part.messages()
    by_off = {m.offset: m for m in logmsgs}
    offsets_sorted = [m.offset for m in logmsgs]
    entry_of = {}
    for e in part.entries:
        for m in e.msgs:
            entry_of[m.offset] = e
    wrapper_v1 = {}
    for e in part.entries:
        if e.wrapper and e.magic == 1:
            for i, m in enumerate(e.msgs):
                wrapper_v1[(m.key, m.value)] = (m.offset, i)
    corrupt_offsets = set()
    inner_from = state.get("inner_from", {})
    for e in corrupted:
        for m in e.msgs:
            if m.offset >= inner_from.get(id(e), m.offset):
                corrupt_offsets.add(m.offset)  # (inner messages ahead of a damaged inner message decode fine and may be delivered)
    had_corruption = bool(corrupted)
    oor_events = [(e["resp_t"], e["logseq"], e["pid"]) for e in cl.reqlog
                  if e["key"] == kwire.FETCH and e.get("served") and any(s_["error"] == E_OFFSET_OUT_OF_RANGE for s_ in e["served"])
                  and e.get("resp_t") is not None]
    fetches_by_pid = {}
    for e in cl.reqlog:
        if e["key"] == kwire.FETCH and e.get("served"):
            fetches_by_pid.setdefault(e["pid"], []).append(e)
    listoff = [e for e in cl.reqlog if e["key"] == kwire.LIST_OFFSETS and e.get("resp_body")]
    offfetch = [e for e in cl.reqlog if e["key"] == kwire.OFFSET_FETCH and e.get("resp_body")]

    for inc in incs:
        for si, s in enumerate(inc.sessions):
            d = s["delivered"]
            # ---------------- C02 ----------------
            prev = None
            for off, key, val, rec in d:
                res.oblige("C02")
                m = by_off.get(off)
                if m is None or (m.key, m.value) != (key, val):
                    # C05: inner messages of a format-1 wrapper reported with relative offsets?
                    wv = wrapper_v1.get((key, val))
                    if wv is not None and wv[0] != off:
                        res.violate("C05", "C05:wrapper-v1-inner-offsets-not-absolute",
                                    "message stored at offset %d (position %d of a format-1 wrapper) reported at offset %d" % (wv[0], wv[1], off))
                        res.violate("C02", "C02:delivered-record-differs-from-log:format-1-wrapper-offsets",
                                    "offset %d delivered with the content stored at %d" % (off, wv[0]))
                    elif had_corruption and (off in corrupt_offsets or m is None):
                        res.violate("C12", "C12:altered-message-delivered", "offset %d delivered as %r/%r, log has %r" % (
                            off, key, (val or b"")[:16], m))
                    else:
                        res.violate("C02", "C02:delivered-record-differs-from-log", "offset %d delivered as key=%r value=%r, log has %r" % (
                            off, key, (val or b"")[:16], m))
                    break
                if off in corrupt_offsets and any(e.corrupt or not e.heal or state.get("t_heal") is None or rec["t"] < state["t_heal"]
                                                  for e in corrupted if any(mm.offset == off for mm in e.msgs)):
                    # (delivered while the stored bytes were still damaged - e.g. only the checksum field itself was hit, so the
                    # content looks right: it still was not verified)
                    res.violate("C12", "C12:message-from-corrupted-entry-delivered", "offset %d is inside an entry whose checksummed bytes were altered" % off)
                # C05: the rest of the message - format version, attribute bits, timestamp - as stored (when the broker served
                # the stored format: a down- or up-converted message has no timestamp to compare)
                meta = rec.get("meta", {}).get(off)
                ent = entry_of.get(off)
                if meta is not None and ent is not None and ent.raw is None and not ent.corrupt and meta[0] == ent.magic:
                    res.oblige("C05")
                    want_ts = m.timestamp if ent.magic == 1 else None
                    if ent.magic == 1 and meta[2] != want_ts:
                        res.violate("C05", "C05:timestamp-differs", "offset %d decoded with timestamp %r, stored %r" % (off, meta[2], want_ts))
                    want_attr = ent.attrs if ent.magic == 1 else 0
                    if meta[1] != want_attr:
                        res.violate("C05", "C05:attributes-differ", "offset %d decoded with attributes %r, stored %r" % (off, meta[1], want_attr))
                if prev is not None and (off <= prev[0] or any(prev[0] < x < off for x in offsets_sorted)):
                    # the offset-reset policy firing is a permitted discontinuity. The out-of-range answer may pre-date
                    # the previous delivery (a reply parked behind slow processing), so it is matched by count: each
                    # discontinuity consumes out-of-range answers served to this consumer in this session so far.
                    served_oor = sum(1 for t, q, pid in oor_events if pid == inc.pid and q >= s["seq"] and q <= rec["seq"])
                    if cc["reset"] is not None and served_oor > s.get("oor_used", 0):
                        s["oor_used"] = served_oor
                        res.probe("reset_policy_fired")
                        prev = (off, key, val, rec)
                        continue
                if prev is not None:
                    if off <= prev[0]:
                        res.violate("C02", "C02:offsets-not-strictly-increasing", "%d delivered after %d" % (off, prev[0]))
                        break
                    # gap?
                    skipped = [x for x in offsets_sorted if prev[0] < x < off]
                    if skipped:
                        reset = False
                        if not reset:
                            sig = "C02:messages-skipped"
                            if any(x in corrupt_offsets for x in skipped):
                                res.violate("C12", "C12:corrupted-message-skipped", "offsets %r skipped between %d and %d" % (skipped[:5], prev[0], off))
                            else:
                                res.violate("C02", sig, "offsets %r never delivered between %d and %d" % (skipped[:5], prev[0], off))
                            break
                prev = (off, key, val, rec)
            # first delivered offset follows from the resolved starting position
            _check_first(w, res, inc, s, d, by_off, offsets_sorted, listoff, offfetch, fetches_by_pid, oor_events, part, cfg)
            # ---------------- C13 ----------------
            _check_c13(w, res, inc, s, cc)
        # ---------------- C03 ----------------
        if cc["group"]:
            _check_c03(w, res, inc, cc, part)
        # ---------------- C14 ----------------
        _check_c14(w, plan, res, inc, cc, fetches_by_pid)
    # at-least-once across incarnations (C03): every log offset between first start and final committed offset was
    # successfully processed by some incarnation
    if cc["group"]:
        final = cl.offsets.get((GROUP, TOPIC, 0))
        okset = set()
        first_delivered = None
        for inc in incs:
            for s in inc.sessions:
                for p in s["procs"]:
                    if p["done"] and p["ok"]:
                        okset.update(p["offsets"])
                if s["delivered"] and first_delivered is None:
                    first_delivered = s["delivered"][0][0]
        if final is not None and first_delivered is not None and any(c_["stored"] for c_ in cl.commits):
            res.oblige("C03")
            lo = first_delivered
            if cfg.get("precommit") is not None:
                # offsets at or below a commit that existed before this consumer ever ran are some earlier owner's progress
                lo = max(lo, cfg["base"] + cfg["precommit"] + 1)
            missing = [x for x in offsets_sorted if lo <= x <= final[0] and x not in okset and x >= part.log_start]
            restarts = any(s["start_kind"] != "committed" for inc in incs for s in inc.sessions[1:]) or \
                any(s["start_kind"] == "latest" for inc in incs for s in inc.sessions)
            oor = bool(oor_events)
            # a start from the committed position that found nothing committed falls to the reset policy, which may skip
            for e in offfetch:
                try:
                    p_ = e["resp_body"]["topics"][0]["partitions"][0]
                    if e.get("delivered_seq") is not None and p_["error"] == 0 and p_["offset"] < 0:
                        restarts = True
                except (KeyError, IndexError, TypeError):
                    pass
            if missing and not restarts and not oor:
                res.violate("C03", "C03:committed-past-unprocessed-messages", "committed %d but offsets %r were never successfully processed" % (
                    final[0], missing[:5]))
    # ---------------- liveness (C02) and recovery (C08) in the fault-free tail ----------------
    if live_tail is not None and logmsgs:
        s = live_tail
        inc = incs[s["inc"]]
        last = logmsgs[-1].offset
        res.oblige("C02")
        dl = s["delivered"][:s["delivered_at_tail"]]
        persist_corrupt = any(e.corrupt for e in corrupted)
        if not persist_corrupt and cc["max_attempts"] == 0:
            at_end = [e for e in fetches_by_pid.get(inc.pid, []) if e["logseq"] > s["seq"] and e["served"][0]["error"] == 0
                      and e["served"][0]["offset"] >= part.leo]
            reached = (bool(dl) and dl[-1][0] >= last) or bool(at_end)
            nothing_expected = (s["start_kind"] == "latest" and not dl and not _appended_after(sim, s)) or \
                (not dl and _start_beyond_end(s, part))
            waited = state["t_tail_end"] - (state["t_heal"] or plan["t_faults_end"])
            if not reached and not nothing_expected and not s["pending_at_tail"] and not (state.get("tail_cut") and waited < 15.0):
                sig = "C02:not-caught-up-after-faults-ended"
                res.violate("C02", sig, "%.0f s after the last fault the consumer has delivered up to %r, log ends at %d" % (
                    waited, dl[-1][0] if dl else None, last))
                if cfg["variant"] == "recovery":
                    res.violate("C08", "C08:consumer-did-not-resume-after-faults-ended", "delivered up to %r, log ends at %d" % (dl[-1][0] if dl else None, last))
            elif reached:
                res.probe("caught_up_in_tail")
                if cfg["variant"] == "recovery":
                    res.oblige("C08")
    # ---------------- C05 at the client boundary: what the real decoder makes of the bytes the cluster served ----------------
    _check_c05_served(w, res, cl)
    # double fires anywhere
    for where, etype, msg, frames in sim.uncaught:
        if etype == "AlreadyCalledError":
            res.violate("C13", "C13:second-fire-attempt", "%s %r" % (where, frames))
    w.check_wire("C04")
    faults = set(net.fault_counts)
    inflight = any(k.startswith("rule_") or k in ("leader_move", "retention", "process_kill", "corrupt_stored_message", "connect_refused") for k in faults)
    for p in ("C02", "C03", "C13", "C14", "C12", "C05", "C08", "C04"):
        res.nontrivial[p] = bool(res.obligations.get(p)) and (inflight or p in ("C13", "C05"))
    if corrupted:
        res.oblige("C12", len(corrupted))
        res.nontrivial["C12"] = True
    if any(e.wrapper for e in part.entries):
        res.oblige("C05")


def _appended_after(sim, s):
    return any(e[2] == "op" and e[3] == "append" and e[0] > s["seq"] for e in sim.log)


def _start_beyond_end(s, part):
    return s["start_kind"] == "num" and s["start_offset"] >= part.leo


def _check_first(w, res, inc, s, d, by_off, offsets_sorted, listoff, offfetch, fetches_by_pid, oor_events, part, cfg):
    if not d:
        return
    first = d[0][0]
    kind = s["start_kind"]
    resolved = None
    if kind == "num":
        resolved = s["start_offset"]
    else:
        # the answer the cluster gave this consumer in this session.  A lookup the client had given up on (request
        # timeout) is answered too, and that answer is discarded; the retry's answer is the one acted on - so when the
        # position was looked up again before the first fetch, only the last lookup counts.
        cands = listoff if kind in ("earliest", "latest") else offfetch
        mine = [e for e in cands if e["pid"] == inc.pid and e["logseq"] >= s["seq"]]
        first_fetch = min([c["seq"] for c in s["calls"] if c["name"] == "send_fetch_request"] or [float("inf")])
        before = [e for e in mine if e["logseq"] < first_fetch]
        if len(before) > 1:
            mine = before[-1:]
            res.probe("start_position_looked_up_again_before_first_fetch")
        for e in mine:
            if e.get("delivered_seq") is None or e.get("act") == "garbage":
                continue
            if kind in ("earliest", "latest"):
                p = e["resp_body"]["topics"][0]["partitions"][0]
                if p["error"] == 0 and p["offsets"]:
                    resolved = p["offsets"][0]
                    break
            else:
                p = e["resp_body"]["topics"][0]["partitions"][0]
                if p["error"] == 0:
                    if p["offset"] >= 0:
                        resolved = p["offset"] + 1
                    else:
                        resolved = None  # policy decides; fall through to the permissive rule
                    break
    if resolved is None:
        return
    res.oblige("C02")
    # out-of-range before the first delivery (reset policy) makes the start position move legitimately
    t_first = d[0][3]["t"]
    if any(t <= t_first and pid == inc.pid and q >= s["seq"] for t, q, pid in oor_events):
        return
    expected = [x for x in offsets_sorted if x >= resolved]
    if not expected:
        return
    if first != expected[0]:
        # messages appended later than the first fetch are fine: expected[0] is the first log offset >= resolved, whenever appended
        sig = "C02:first-delivered-offset-wrong" if kind != "committed" else "C03:resume-position-not-committed-plus-one"
        prop = "C02" if kind != "committed" else "C03"
        res.violate(prop, sig, "start %s resolved to %d: first delivered %d, first log offset at or after it is %d" % (kind, resolved, first, expected[0]))
    elif kind == "committed":
        res.probe("resumed_at_committed_plus_one")
        res.oblige("C03")


def _check_c13(w, res, inc, s, cc):
    from afkak.common import FailedPayloadsError
    from twisted.internet.defer import CancelledError
    sw = s["start_w"]
    res.oblige("C13")
    if sw.fires > 1:
        res.violate("C13", "C13:start-deferred-fired-twice", "")
    if s["ended_by_kill"]:
        return
    if not s["calls"]:
        res.violate("C13", "C13:started-consumer-does-nothing:%s" % ("restart" if inc.sessions.index(s) else "first-start"),
                    "start() was accepted but the consumer never issued a request")
    # an unrecoverable error - the processor itself failing, with whatever exception - is reported on the start Deferred
    failed = [p for p in s["procs"] if p["done"] and p["ok"] is False and not p.get("cancelled")]
    if failed:
        p0 = failed[0]
        stop_seq = s["stop_seq"] if s["stopped"] and s["stop_seq"] is not None else None
        if not s["shutdown_called"] and (stop_seq is None or p0.get("seq_done", 0) < stop_seq - 1):
            res.oblige("C13")
            if not (sw.fires and sw.ok is False):
                res.violate("C13", "C13:processor-failure-not-reported-on-the-start-deferred",
                            "processor invocation %d failed; the start Deferred %s" % (p0["k"], "fired with success" if sw.fires else "did not fire"))
    if s["stopped"] and sw.fires == 0:
        res.violate("C13", "C13:start-deferred-never-fired", "session stopped by %s but the start Deferred never fired" % s["stop_kind"])
        return
    if sw.fires and not sw.ok:
        v = sw.value
        cancelled = isinstance(v, CancelledError) or (isinstance(v, FailedPayloadsError) and any(
            isinstance(f.value, CancelledError) for _p, f in v.args[1]))
        if getattr(v, "injected_by_harness", False):
            res.probe("start_failed_with_the_processors_own_cancellation")
        elif cancelled and (s.get("start_fire_in_stop") or s["shutdown_called"] or s["stopped"]):
            how = "during-stop" if s.get("start_fire_in_stop") else ("shutdown" if s["shutdown_called"] else "after-stop")
            res.violate("C13", "C13:start-deferred-result:cancellation-caused-by-own-stop:%s:%s" % (how, type(v).__name__),
                        "start Deferred failed with %s although the consumer was being stopped by the application" % type(v).__name__)
        else:
            res.probe("start_failed_" + type(v).__name__)
    if sw.fires and sw.ok and s["stopped"] and s["stop_kind"] in ("stop", "shutdown"):
        if sw.value != s.get("lpo_at_fire"):
            res.violate("C13", "C13:start-deferred-value-not-last-processed", "fired with %r, last processed %r" % (sw.value, s.get("lpo_at_fire")))
    if s["stop_kind"] == "stop" and "stop_return" in s and s["stop_return"] != s.get("lpo_at_stop"):
        res.violate("C13", "C13:stop-return-value", "stop() returned %r, last processed %r" % (s["stop_return"], s.get("lpo_at_stop")))
    if s["shutdown_called"]:
        shw = s.get("shutdown_w")
        if shw is not None:
            if shw.fires != 1:
                res.violate("C13", "C13:shutdown-deferred-fired-%d-times" % shw.fires,
                            "shutdown() Deferred fired %d times by the end of the run (commit outcomes: see plan)" % shw.fires)
            elif shw.ok:
                res.probe("shutdown_ok")
            else:
                res.probe("shutdown_failed_" + shw.err)
    # nothing after stop: timers created by consumer.py after stop returned (until a restart)
    if s["stopped"] and s["stop_seq"] is not None and not s["ended_by_kill"]:
        nxt = None
        idx = inc.sessions.index(s)
        if idx + 1 < len(inc.sessions):
            nxt = inc.sessions[idx + 1]["seq"]
        late = [x for x in w.reactors[inc.pid].timer_log if x[0] > s["stop_seq"] and (nxt is None or x[0] < nxt) and x[3].startswith("consumer.py")]
        if late:
            res.violate("C13", "C13:timer-created-after-stop:%s" % late[0][4], "%d timers created by consumer.py after stop returned" % len(late))
        # ... and nothing of the consumer's goes onto the wire any more: a fetch, offset lookup or commit whose cancellation
        # was swallowed somewhere below would be written after stop() returned (the process runs nothing but this consumer)
        import struct as _st
        from .world import client_frames
        t_stop = s.get("stop_t", w.sim.now)
        t_next = inc.sessions[idx + 1]["t"] if idx + 1 < len(inc.sessions) else None
        for conn in w.net.conns:
            if conn.pid != inc.pid:
                continue
            for frame, t in client_frames(conn):
                if len(frame) < 2 or not (t > t_stop + 1e-12 and (t_next is None or t < t_next - 1e-12)):
                    continue
                key = _st.unpack(">h", frame[:2])[0]
                if key in (kwire.FETCH, kwire.LIST_OFFSETS, kwire.OFFSET_FETCH, kwire.OFFSET_COMMIT):
                    res.violate("C13", "C13:request-written-after-stop:%s" % kwire.API_NAMES.get(key), "%s request written at %.6f, stop() returned at %.6f" % (
                        kwire.API_NAMES.get(key), t, t_stop))
                    break


def _check_c03(w, res, inc, cc, part):
    commits = [c for c in inc.obs.calls if c["name"] == "send_offset_commit_request"]
    open_ = []
    evs = []
    for c in commits:
        evs.append((c["seq"], 1, c))
        if c["done"]:
            evs.append((c["seq_done"], -1, c))
    evs.sort(key=lambda x: (x[0], x[1]))
    n = 0
    for _q, dlt, c in evs:
        n += dlt
        if n > 1:
            res.violate("C03", "C03:two-commit-requests-outstanding", "")
            break
    for c in commits:
        res.oblige("C03")
        if c["commit_offset"] != c["last_ok"]:
            sig = "C03:committed-value-not-last-processed"
            if c["last_ok"] is None or (c["commit_offset"] is not None and c["last_ok"] is not None and c["commit_offset"] > c["last_ok"]):
                sig = "C03:commit-ahead-of-successful-processing"
            res.violate("C03", sig, "commit of %r issued when the last successfully processed message was %r" % (c["commit_offset"], c["last_ok"]))
        elif c["bad_below"]:
            res.violate("C03", "C03:commit-passes-failed-invocation", "commit of %r although delivered offsets %r at or below it were never processed successfully" % (
                c["commit_offset"], c["bad_below"][:4]))


def _check_c14(w, plan, res, inc, cc, fetches_by_pid):
    """Retry timers, attempt limit, reset policy and buffer growth, judged at the API boundary and the timer log."""
    from afkak.common import ConsumerFetchSizeTooSmall, OffsetOutOfRangeError
    cfg = plan["cfg"]
    init, mx = cc["retry_init"], cc["retry_max"]
    tl = [x for x in w.reactors[inc.pid].timer_log if x[3].startswith("consumer.py") and x[4] == "_do_fetch"]
    calls = [c for c in inc.obs.calls if c["name"] in ("send_fetch_request", "send_offset_request", "send_offset_fetch_request")]
    # merge by log sequence: successes reset the model delay, nonzero timers advance it
    evs = [(x[0], "timer", x) for x in tl] + [(c["seq_done"], "done", c) for c in calls if c["done"]]
    evs.sort(key=lambda x: x[0])
    d = init
    for _q, kind, x in evs:
        if kind == "done":
            if x["ok"]:
                d = init
            continue
        delay = x[2]
        if delay == 0:
            continue
        res.oblige("C14")
        if not close(delay, d):
            res.violate("C14", "C14:retry-delay-off-schedule", "retry after %.6f s, model says %.6f (init %.3f max %.3f)" % (delay, d, init, mx))
            break
        d = min(d * FACTOR, mx)
    # every fetch/offset call is issued at session start, at a retry timer's instant, or right after an offset answer
    import bisect
    fire_times = sorted(x[1] + x[2] for x in tl)
    answer_times = sorted(c2["t_done"] for c2 in calls if c2["done"] and c2["ok"] and c2["name"] != "send_fetch_request")

    late = cfg.get("late_timers") or 0.0  # a timer may fire up to this much after its due time

    def near(lst, t, eps=1e-7):
        i = bisect.bisect_left(lst, t - eps - late)
        return i < len(lst) and lst[i] <= t + eps

    for c in calls:
        s = c.get("session")
        if s is None:
            continue
        ok = close(c["t"], s["t"]) or near(fire_times, c["t"]) or near(answer_times, c["t"])
        if not ok:
            res.violate("C14", "C14:request-issued-off-schedule", "%s at %.6f matches no retry timer" % (c["name"], c["t"]))
            break
    # attempt limit
    L = cc["max_attempts"]
    for s in inc.sessions:
        sw = s["start_w"]
        if not (sw.fires and not sw.ok):
            continue
        v = sw.value
        scalls = [c for c in calls if c.get("session") is s and c["done"] and c["seq_done"] <= sw.seq]
        consecutive = 0
        for c in reversed(scalls):
            if c["ok"]:
                break
            consecutive += 1
        fatal = isinstance(v, (RuntimeError, ConsumerFetchSizeTooSmall)) or (isinstance(v, OffsetOutOfRangeError) and cc["reset"] is None)
        from twisted.internet.defer import CancelledError
        if fatal or isinstance(v, CancelledError):
            continue
        is_commit_failure = any(c["name"] == "send_offset_commit_request" and c["done"] and not c["ok"] and c["seq_done"] <= sw.seq
                                for c in inc.obs.calls)
        if is_commit_failure and consecutive == 0:
            continue
        res.oblige("C14")
        if L == 0 and not s["shutdown_called"]:
            if consecutive > 0 and scalls and scalls[-1]["result"].value is v:
                res.violate("C14", "C14:gave-up-although-retries-unlimited", "start Deferred failed with %s after %d consecutive failures, limit 0" % (type(v).__name__, consecutive))
        elif L and consecutive > L:
            res.violate("C14", "C14:more-attempts-than-the-limit", "%d consecutive failed attempts, limit %d" % (consecutive, L))
    # out-of-range policy and buffer growth from the served fetches
    fl = [e for e in fetches_by_pid.get(inc.pid, []) if e.get("delivered_seq") is not None and e.get("act") not in ("garbage", "cut_mid")]
    api_fetches = [c for c in inc.obs.calls if c["name"] == "send_fetch_request"]
    fl_index = {}
    for e in fl:
        sv = e["served"][0]
        fl_index.setdefault((sv["offset"], sv["max_bytes"]), []).append(e)
    for i, c in enumerate(api_fetches):
        if not (c["done"] and c["ok"]):
            continue
        pl = c["args"][0][0]
        # which served entry answered this call: by offset/max_bytes and time window
        served = None
        lst = fl_index.get((pl.offset, pl.max_bytes))
        while lst and lst[0]["logseq"] < c["seq"]:
            lst.pop(0)
        if lst and lst[0]["delivered_seq"] <= c["seq_done"]:
            served = lst.pop(0)["served"][0]
        if served is None or served["error"] != 0:
            continue
        ents, used = kwire.frame_entries(served["records"])
        too_small = served["nbytes"] > 0 and not ents
        if not too_small:
            continue
        res.oblige("C14")
        b = pl.max_bytes
        mxb = cc["max_buffer_size"]
        want = b * (16 if b <= 2 ** 20 else 2)
        if mxb is not None:
            want = min(want, mxb)
        nxt = api_fetches[i + 1] if i + 1 < len(api_fetches) else None
        s = c.get("session")
        if mxb is not None and b >= mxb:
            if s is not None and not (s["start_w"].fires and not s["start_w"].ok and isinstance(s["start_w"].value, ConsumerFetchSizeTooSmall)) and not s["stopped"]:
                res.violate("C14", "C14:no-failure-at-maximum-buffer", "message does not fit the maximum buffer %d but the start Deferred did not fail" % mxb)
            res.probe("buffer_at_maximum")
            continue
        if s is not None and s["start_w"].fires and not s["start_w"].ok and isinstance(s["start_w"].value, ConsumerFetchSizeTooSmall) and \
                (nxt is None or nxt.get("session") is not s):
            # gave up although the buffer could still grow (no limit, or the limit not reached yet)
            res.violate("C14", "C14:failed-before-the-buffer-reached-its-maximum", "start Deferred failed with ConsumerFetchSizeTooSmall after a fetch of %d bytes; maximum %r" % (b, mxb))
            res.violate("C12", "C12:buffer-not-enlarged-for-a-truncated-message", "fetch of %d bytes held no complete message; the consumer failed instead of asking for %d" % (b, want))
            continue
        if nxt is None or nxt.get("session") is not s:
            continue
        npl = nxt["args"][0][0]
        if npl.offset != pl.offset:
            res.violate("C14", "C14:message-skipped-after-fetch-size-too-small", "fetch at %d was too small; next fetch asks for %d" % (pl.offset, npl.offset))
            res.violate("C12", "C12:truncated-message-skipped", "fetch at %d was too small; next fetch asks for %d" % (pl.offset, npl.offset))
        elif npl.max_bytes != want:
            res.violate("C14", "C14:buffer-growth-rule", "buffer %d too small: next fetch asks %d bytes, rule says %d" % (b, npl.max_bytes, want))
        else:
            res.probe("buffer_grew")


def _check_c05_served(w, res, cl, limit=60):
    """Decode every distinct served message set with afkak's decoder and compare with the independent codec."""
    from afkak.common import ChecksumError, ConsumerFetchSizeTooSmall
    from afkak.kafkacodec import KafkaCodec
    seen = set()
    n = 0
    for e in cl.served_fetches:
        if e.get("act") in ("garbage",):
            continue
        for sv in e["served"]:
            data = sv["records"]
            if not data or data in seen:
                continue
            seen.add(data)
            n += 1
            if n > limit:
                return
            try:
                ents, used = kwire.parse_message_set(data, False, 0, False)
                want = [(x["offset"], x["key"], x["value"]) for x in kwire.leaves(ents)]
            except kwire.WireError:
                continue  # corrupted on purpose: judged by the C12 oracle
            try:
                got = [(om.offset, om.message.key, om.message.value) for om in KafkaCodec._decode_message_set_iter(data)]
            except ConsumerFetchSizeTooSmall:
                got = []
            except ChecksumError:
                res.violate("C05", "C05:checksum-error-on-well-formed-set", "served set of %d bytes" % len(data))
                continue
            res.oblige("C05")
            if got != want:
                v1w = any(x["inner"] is not None and x["magic"] == 1 for x in ents)
                sig = "C05:wrapper-v1-inner-offsets-not-absolute" if v1w and [g[1:] for g in got] == [x[1:] for x in want] else "C05:decoded-messages-differ"
                res.violate("C05", sig, "decoder yields offsets %r, the set encodes %r" % ([g[0] for g in got][:6], [x[0] for x in want][:6]))
