"""Small executable reference models used as oracles (independent of afkak)."""


def murmur2_ref(data, seed=0x9747B28C):
    """MurmurHash2 (32-bit), written from org.apache.kafka.common.utils.Utils.murmur2 (signed Java int
    arithmetic emulated with masks).  Returns the unsigned 32-bit value."""
    data = bytes(data)
    n = len(data)
    m = 0x5BD1E995
    M = 0xFFFFFFFF
    h = (seed ^ n) & M
    i = 0
    while n - i >= 4:
        k = data[i] | (data[i + 1] << 8) | (data[i + 2] << 16) | (data[i + 3] << 24)
        k = (k * m) & M
        k ^= k >> 24
        k = (k * m) & M
        h = (h * m) & M
        h ^= k
        i += 4
    rest = n - i
    if rest == 3:
        h ^= data[i + 2] << 16
    if rest >= 2:
        h ^= data[i + 1] << 8
    if rest >= 1:
        h ^= data[i]
        h = (h * m) & M
    h ^= h >> 13
    h = (h * m) & M
    h ^= h >> 15
    return h & M


def java_partition(key, partitions):
    return partitions[(murmur2_ref(key) & 0x7FFFFFFF) % len(partitions)]


def backoff_delays(init, factor, mx, n):
    out = []
    d = init
    for _ in range(n):
        out.append(d)
        d = min(d * factor, mx)
    return out


def close(a, b, rel=1e-9, abs_=1e-9):
    return abs(a - b) <= max(abs_, rel * max(abs(a), abs(b)))
